"""C06 — Track decoding never returns damaged or misaddressed sector data."""
import vlib
from gen import discs, flux
from props import common
from props.c05 import rand_layout, parse_secs

LEAN_MODULE = 'Beeb.Props.C06'
LEAN_MODULES = ['Beeb.Props.C06', 'Beeb.Props.C05c']
LEAVES = ['crc_cycle', 'reverse_bit_order', 'pictrack_len', 'is_hfe3_opcode', 'hfe_le_word', 'hxc_le_word', 'hxc_le_quad', 'bitstream_raw_pos']
RULE = ('valid FM/MFM tracks (random gaps, orders; all sector contents distinct) subjected to damage: 1-3 bit flips, odd numbers of flips and single bursts <= 16 bits '
        '(all guaranteed to be caught by CRC-16/CCITT) inside chosen ID or data fields, bit insertions/deletions (slips), zeroed runs, truncation, damage to the ID of '
        'one sector so that the next data field follows it; plus random bit streams. (a) in-process: real decoders vs Lean decoders, and the oracle on the real '
        'decoder\'s return value: every returned sector passes the data CRC recomputed in Python, carries an address that was recorded, and its data is the data recorded '
        'under that address (never another sector\'s); a sector hit by guaranteed-detectable damage is absent. (b) image level: damaged HFE v1/v3 and HxC MFM images, '
        'dump-sector of every (track, sector) touched: either fails or shows the recorded bytes; compared with the Lean model. Non-trivial = damaged track.')
ASSUMPTIONS = ['CRC-16 cannot detect every corruption: data that differs from everything recorded but passes the CRC is counted (dist: crc-collision), not flagged',
               'the Python CRC (tools/gen/flux.py) is the published CRC-16/CCITT (poly 0x1021, init 0xFFFF); it is compared with the Lean definition through the trackenc stream of C05']


def field_spans(lay, mfm, nsec):
    """cell spans (start, end) of (kind, index-in-physical-order) for a track from flux.fm_track/mfm_track"""
    spans = []
    pos = lay.gap1 * 16
    sync = max(lay.sync, 2) if mfm else lay.sync
    gap2 = max(lay.gap2, 1) if mfm else lay.gap2
    gap3 = max(lay.gap3, 1) if mfm else lay.gap3
    for k in range(nsec):
        pos += sync * 16
        if mfm:
            pos += 3 * 16
        spans.append(('id', k, pos, pos + 7 * 16))
        pos += 7 * 16 + gap2 * 16 + sync * 16
        if mfm:
            pos += 3 * 16
        spans.append(('data', k, pos, pos + (1 + 256 + 2) * 16))
        pos += (1 + 256 + 2) * 16 + gap3 * 16
    return spans


def damage(r, cells, spans, order, kind=None):
    """returns (cells', set of physical indexes whose fields were hit by guaranteed-detectable damage,
    set of physical indexes possibly affected in any way, description)"""
    c = list(cells)
    kind = r.below(16) if kind is None else kind % 16
    hit, touched = set(), set()
    if kind <= 3:      # detectable damage inside one or more fields
        for _ in range(r.range(1, 3)):
            f = r.choice(spans)
            lo, hi = f[2], f[3]
            # flip DATA cells only (odd offsets within the field): a flipped clock is caught by the clock check, a flipped data bit only by the CRC
            style = r.below(3)
            dcells = list(range(lo + 1, hi, 2))
            if style == 0:
                flips = r.shuffle(dcells)[:r.choice([1, 1, 2, 3])]
            elif style == 1:
                flips = r.shuffle(dcells)[:r.choice([1, 3, 5, 7])]
            else:
                a = r.below(len(dcells) - 16)
                w = r.range(1, 65535)
                flips = [dcells[a + i] for i in range(16) if (w >> i) & 1]
            if f[1] in hit:
                continue       # two damages in one sector could cancel: keep the guarantee simple
            for p in flips:
                c[p] ^= 1
            hit.add(f[1])
            touched.add(f[1])
        desc = 'detectable-flips'
    elif kind == 4:    # slip: insert or delete a cell somewhere
        p = r.below(len(c))
        if r.chance(1, 2):
            c.insert(p, r.below(2))
        else:
            del c[p]
        touched = set(range(len(order)))
        desc = 'slip'
    elif kind == 5:    # zeroed run
        a = r.below(len(c))
        n = r.choice([8, 40, 200, 2000, 6000])
        for p in range(a, min(len(c), a + n)):
            c[p] = 0
        touched = set(range(len(order)))
        desc = 'zeroed-run'
    elif kind == 6:    # truncation
        c = c[:r.below(len(c))]
        touched = set(range(len(order)))
        desc = 'truncated'
    elif kind == 7:    # destroy one ID field (and maybe the data field before it), so that a data field follows a foreign ID
        ids = [f for f in spans if f[0] == 'id']
        f = r.choice(ids[1:] if len(ids) > 1 else ids)
        for p in range(f[2] - 64, f[3]):
            if 0 <= p < len(c):
                c[p] = r.below(2) if r.chance(1, 2) else 0
        touched = {f[1], max(0, f[1] - 1)}
        desc = 'id-destroyed'
    elif kind in (8, 9):   # wipe the sync and mark in front of one data field: its ID field is then followed by the NEXT sector's data field
        dfs_ = [f for f in spans if f[0] == 'data']
        f = r.choice(dfs_[:-1] if len(dfs_) > 1 else dfs_)
        for p in range(f[2] - 5 * 16, f[2] + 16):
            if 0 <= p < len(c):
                c[p] = 0 if kind == 8 else r.below(2)
        touched = {f[1], min(len(order) - 1, f[1] + 1)}
        desc = 'data-mark-destroyed'
    elif kind in (10, 11):   # ... and the next sector's ID field as well, so that the next thing a decoder can read after ID k is data k+1
        dfs_ = [f for f in spans if f[0] == 'data']
        ids = [f for f in spans if f[0] == 'id']
        k = r.below(max(1, len(dfs_) - 1))
        f = dfs_[k]
        for p in range(f[2] - 5 * 16, f[2] + 16):
            if 0 <= p < len(c):
                c[p] = 0
        if k + 1 < len(ids):
            g = ids[k + 1]
            for p in range(g[2] - 5 * 16, g[3]):
                c[p] = 0 if kind == 10 else r.below(2)
        touched = {k, min(len(order) - 1, k + 1)}
        desc = 'data-mark-and-next-id-destroyed'
    elif kind == 15:   # the sync and mark in front of data field k are gone AND the ID field of sector k+1 is there but fails its CRC
        # (one flipped bit in C/H/R/N): two correlated faults - the good header k must not be paired with the intact data field k+1
        dfs_ = [f for f in spans if f[0] == 'data']
        ids = [f for f in spans if f[0] == 'id']
        k = r.below(max(1, len(dfs_) - 1))
        f = dfs_[k]
        for p in range(f[2] - 5 * 16, f[2] + 16):
            if 0 <= p < len(c):
                c[p] = 0
        if k + 1 < len(ids):
            g = ids[k + 1]
            c[g[2] + 16 * r.range(1, 4) + 2 * r.below(8) + 1] ^= 1
            hit.add(k + 1)
        hit.add(k)
        touched = {k, min(len(order) - 1, k + 1)}
        desc = 'data-mark-destroyed+next-id-crc-bad'
    elif kind == 14:   # one flipped data bit inside an address mark byte itself (FB -> FA/F9/..., FE -> FC/...): not the mark any more
        f = r.choice(spans)
        bit = r.choice([7, 6, 6, 7, r.below(8)])          # MSB-first index: 7 and 6 are the two low bits (FB -> FA, F9)
        c[f[2] + 2 * bit + 1] ^= 1
        hit.add(f[1])
        touched.add(f[1])
        desc = 'mark-bit-flip'
    elif kind == 13:   # a single flipped data bit whose effect on the CRC leaves one of the two CRC bytes unchanged
        f = r.choice([x for x in spans if x[0] == 'data'])
        j, b = r.choice(HALF_CRC_FLIPS)
        c[f[2] + 16 * j + 2 * b + 1] ^= 1
        hit.add(f[1])
        touched.add(f[1])
        desc = 'crc-one-byte-intact'
    else:              # random noise over a stretch
        a = r.below(len(c))
        for p in range(a, min(len(c), a + r.choice([16, 100, 1000]))):
            c[p] = r.below(2)
        touched = set(range(len(order)))
        desc = 'noise'
    return c, hit, touched, desc


def _half_crc_flips():
    """(byte index, bit index MSB-first) within mark+256 data bytes whose single-bit flip changes the CRC in one byte only"""
    out = []
    for j in range(257):
        for b in range(8):
            e = bytearray(257)
            e[j] = 0x80 >> b
            d = flux.crc_ccitt(bytes(e), 0)
            if d and ((d & 0xFF) == 0 or (d >> 8) == 0):
                out.append((j, b))
    return out


HALF_CRC_FLIPS = _half_crc_flips()


def data_crc_ok(mfm, data, c1, c2):
    pre = b'\xA1\xA1\xA1\xFB' if mfm else b'\xFB'
    return flux.crc_ccitt(pre + data + bytes([c1, c2])) == 0


def run(ctx):
    r = ctx.rng
    quick = ctx.tier == 'quick'
    reqs, metas = [], []
    nmain = 64 if quick else 1600
    # the tail of every run: the damage kinds that only a specific decoder weakness lets through (two correlated faults, a flip that leaves
    # one CRC byte intact, a flipped mark bit), on plain tracks (no deleted records) of both encodings, several instances each
    tail = [(15, True), (15, False), (13, True), (13, False), (14, True), (14, False)] * (4 if quick else 24)
    for k in range(nmain + len(tail)):
        two_faults = k >= nmain
        mfm = r.chance(1, 2) if not two_faults else tail[k - nmain][1]
        if k % 16 in (13, 14, 15, 10, 11):
            mfm = (k // 16) % 2 == 0        # the CRC-specific and the two-fault damage on both encodings in every run
        nsec = r.choice([10, 10, 4]) if not mfm else r.choice([18, 16, 5])
        lay = rand_layout(r, mfm, nsec)
        if r.chance(1, 4) and not two_faults:
            lay.deleted = set(r.shuffle(list(range(nsec)))[:r.range(1, 3)])       # deleted-data records: never to be returned
        cyl, head = r.below(80), r.below(2)
        secs = {rec: bytes([rec, cyl, k & 255]) + r.bytes(253) for rec in range(nsec)}     # all distinct
        cells = flux.mfm_track(cyl, head, secs, lay) if mfm else flux.fm_track(cyl, head, secs, lay)
        spans = field_spans(lay, mfm, nsec)
        if two_faults:
            bad, hit, touched, desc = damage(r, cells, spans, lay.order, kind=tail[k - nmain][0])
        elif r.chance(1, 12):
            bad, hit, touched, desc = [r.below(2) for _ in range(r.choice([0, 7, 64, 3000, 50000]))], set(), set(range(nsec)), 'random-stream'
        elif r.chance(1, 12):
            bad, hit, touched, desc = list(cells), set(), set(), 'intact'
        else:
            bad, hit, touched, desc = damage(r, cells, spans, lay.order, kind=k)      # every damage kind in every run
        if mfm:
            data, first, stride = flux.pack_lsb(bad), 0, 1
        else:
            data, first, stride = flux.pack_lsb(flux.hfe_side_bits(bad, True)), 1, 2
        reqs.append('trackdec %s %d %d %s' % ('mfm' if mfm else 'fm', first, stride, data.hex() or '-'))
        if lay.deleted:
            desc += '+deleted-records'
        metas.append({'mfm': mfm, 'cyl': cyl, 'head': head, 'order': lay.order, 'secs': secs, 'hit': hit, 'touched': touched, 'desc': desc, 'deleted': set(lay.deleted)})
    it = iter(metas)

    def cmp(rq, il, ml):
        m = next(it)
        ctx.traces += 1
        ctx.oracle_cases += 1
        ctx.count('damage.' + m['desc'])
        ctx.count('enc.' + ('mfm' if m['mfm'] else 'fm'))
        ctx.case(rq[:300], not m['desc'].startswith('intact'), sample={'enc': 'mfm' if m['mfm'] else 'fm', 'damage': m['desc'], 'returned': il.split(':')[0]})
        if il != ml:
            ctx.disagree('trackdec-damaged', 'real decoder and Lean decoder differ on a %s track' % m['desc'], {'request': rq[:200000], 'impl': il[:3000], 'model': ml[:3000]})
        got = parse_secs(il)
        rp = {'request': rq[:400000], 'impl': il[:4000], 'damage': m['desc'], 'recorded_order': m['order']}
        if got is None:
            ctx.violation('decoder-output', 'malformed decoder output', rp)
            return
        ctx.count('returned.%s' % ('0' if not got else 'some' if len(got) < len(m['order']) else 'all'))
        for (c, h, rec, c1, c2, data) in got:
            if len(data) not in (128, 256, 512, 1024) or not data_crc_ok(m['mfm'], data, c1, c2):
                ctx.violation('bad-crc-returned:%s' % ('mfm' if m['mfm'] else 'fm'), 'decoder returned sector (%d,%d,%d) whose data does not pass the CRC (%s track)' % (c, h, rec, m['desc']), rp)
                continue
            if m['desc'].startswith('random-stream'):
                continue
            want = m['secs'].get(rec) if (c, h) == (m['cyl'], m['head']) else None
            if want == data and rec in m['deleted']:
                ctx.violation('deleted-returned:%s' % ('mfm' if m['mfm'] else 'fm'), 'record %d carries a deleted-data mark yet was returned as a sector' % rec, rp)
                continue
            if want == data:
                if m['order'].index(rec) in m['hit'] if rec in m['order'] else False:
                    ctx.violation('damaged-returned:%s' % ('mfm' if m['mfm'] else 'fm'), 'sector %d was damaged (CRC-detectable) yet was returned as good' % rec, rp)
                continue
            other = [r2 for r2, d2 in m['secs'].items() if d2 == data]
            if other:
                ctx.violation('misaddressed:%s' % ('mfm' if m['mfm'] else 'fm'),
                              'decoder returned the data recorded as sector %d under address (%d,%d,%d) (%s track)' % (other[0], c, h, rec, m['desc']), rp)
            else:
                ctx.count('crc-collision')
        if m['desc'] == 'intact' and [(g[2], g[5]) for g in got] != [(rec, m['secs'][rec]) for rec in m['order'] if rec not in m['deleted']]:
            ctx.violation('intact-track-lost', 'an undamaged track did not decode to its sectors', rp)
        if m['desc'].startswith('detectable-flips'):
            # sectors not touched must still be there (the damage is local to a field)
            kept = {g[2] for g in got}
            for idx, rec in enumerate(m['order']):
                if idx not in m['touched'] and rec not in kept:
                    ctx.count('collateral-loss')
    ctx.pair('trackdec-damaged', reqs, cmp)
    run_images(ctx, r, quick)


def run_images(ctx, r, quick):
    impl = ctx.build('asan')
    cases = []
    for k in range(10 if quick else 64):
        forced = {0: ('hxc', True, 4), 1: ('hfe1', False, 5), 2: ('hxc', True, 6), 3: ('hfe1', False, 7), 4: ('hfe3', True, 7), 5: ('hfe1', False, 6),
                  6: ('hfe1', False, 8), 7: ('hfe3', False, 8)}.get(k)
        if forced:
            kind, mfm, style = forced
            tracks = 5
        else:
            mfm = r.chance(1, 2)
            tracks = r.choice([3, 5, 40])
            kind = r.choice(['hfe1', 'hfe3', 'hxc'] if mfm else ['hfe1', 'hfe3'])
            style = r.below(9)
        spt = 18 if mfm else 10
        base = 1 if style == 7 else 0           # style 7: IBM-style record numbers 1..spt (legitimate, never produced by a BBC)
        recs = list(range(base, base + spt))
        content = {(t, s): bytes([t, s, k & 255]) + r.bytes(253) for t in range(tracks) for s in recs}
        lays = {t: rand_layout(r, mfm, spt) for t in range(tracks)}
        for t in range(tracks):
            lays[t].order = [x + base for x in lays[t].order]
            if style == 8:
                lays[t].gap1 = r.choice([0, 1, 16])        # a short gap after the index: the first data mark is close to the start of the track
                lays[t].gap2 = min(lays[t].gap2, 22)
                # choose gap 3 so that the ID field of the physically last sector ends on a 256-byte boundary of the stored stream
                # (64 FM bytes): a track cut there is stored without any padding after the cut
                g3 = lays[t].gap3
                for extra in range(64):
                    lays[t].gap3 = g3 + extra
                    if (field_spans(lays[t], mfm, spt)[-2][3] // 16) % 64 == 0:
                        break
        top = recs[-1]
        if style == 5:      # the highest record of every track is a deleted-data record (damaged on some tracks)
            for t in range(tracks):
                lays[t].deleted = {top}
        per_track = []
        victims = [] if style in (0, 7) else list(range(tracks)) if style == 1 else sorted(r.shuffle(list(range(tracks)))[:max(1, tracks // 3)])
        if style in (4, 6) and kind != 'hxc':
            victims = list(range(tracks))       # HFE insists on the same number of sectors on every track
        if style == 8 and k % 2 == 0:
            victims = list(range(tracks))
        info = {}
        for t in range(tracks):
            secs = {s: content[(t, s)] for s in recs}
            cells = flux.mfm_track(t, 0, secs, lays[t]) if mfm else flux.fm_track(t, 0, secs, lays[t])
            if t in victims and style in (1, 4, 6):
                # lose the highest (or, style 6, the lowest) record: the image stays usable, with one sector fewer on that track
                lost = recs[0] if style == 6 else top
                sp = field_spans(lays[t], mfm, spt)
                idx = lays[t].order.index(lost)
                f = [x for x in sp if x[0] == 'id' and x[1] == idx][0]
                for p in range(f[2], f[3]):
                    cells[p] = 0
                info[t] = 'first-record-lost' if style == 6 else 'top-record-lost'
            elif t in victims and style == 8:
                # the track ends shortly after the ID field of the physically last sector: its data is gone
                sp = field_spans(lays[t], mfm, spt)
                f = [x for x in sp if x[0] == 'id'][-1]
                cells = cells[:f[3]]
                info[t] = 'cut-after-last-id'
            elif t in victims and style == 5:
                sp = field_spans(lays[t], mfm, spt)
                idx = lays[t].order.index(top)
                f = [x for x in sp if x[0] == 'data' and x[1] == idx][0]
                for p in r.shuffle(list(range(f[2] + 17, f[3], 2)))[:3]:
                    cells[p] ^= 1
                info[t] = 'deleted-record-damaged'
            elif t in victims:
                cells, hit, touched, desc = damage(r, cells, field_spans(lays[t], mfm, spt), lays[t].order)
                info[t] = desc
            elif style == 7:
                info[t] = 'records-numbered-from-1'
            per_track.append([cells])
        if kind == 'hxc':
            name, img = 'x.mfm', flux.hxcmfm_image(per_track, 1)
        elif kind == 'hfe1':
            name, img = 'x.hfe', flux.hfe_image(per_track, 1, not mfm)
        else:
            name, img = 'y.hfe', flux.hfe_image(per_track, 1, not mfm, v3=True, opcode_rng=r.fork(), opcode_density=40, straddle=r.chance(1, 2))
        special = style in (1, 4, 5, 6, 7, 8)
        probes = [(t, s) for t in victims for s in (range(spt) if not special else [0, 1, spt - 2, spt - 1])]
        if special:
            probes += [(t, s) for t in range(tracks) for s in (0, 1, spt - 1)]
        if style == 8:
            probes += [(t, lays[t].order[-1]) for t in range(tracks)] + [(t, lays[t].order[0]) for t in range(tracks)]
        probes += [(t, r.below(spt)) for t in range(tracks) if t not in victims][:6]
        probes = sorted(set(probes))
        if quick and not special:
            probes = r.shuffle(probes)[:14]
        for (t, s) in probes:
            cases.append(vlib.Case('img%d' % k, {name: img}, ['--file', '@' + name, 'dump-sector', '0', str(t), str(s)],
                                   meta={'want': content.get((t, s)), 'content': content, 'deleted': (style == 5 and s == top), 't': t, 's': s, 'kind': kind, 'damage': info.get(t, 'intact-track'), 'mfm': mfm}))
    vlib.run_cases(cases, impl['dfs'], timeout=60)
    for c in cases:
        m = c.meta
        common.compare_model(ctx, c, 'e2e-damaged-' + m['kind'])
        ctx.oracle_cases += 1
        ctx.count('image.' + m['kind'])
        ctx.count('image-damage.' + m['damage'])
        i = c.impl
        ctx.case((m['kind'], m['t'], m['s'], hash(bytes(next(iter(c.files.values()))[:20000]))), True,
                 sample={'kind': m['kind'], 'track': m['t'], 'sector': m['s'], 'damage': m['damage'], 'exit': i['exit']})
        if common.crash_violation(ctx, c):
            continue
        if i['exit'] != 0:
            ctx.count('image-read.failed')
            continue
        got = parse_hexdump(i['out'])
        if m['want'] is None:
            # no sector was recorded under this address (records numbered from 1): only a failure is right
            src = [k2 for k2, v in m['content'].items() if v == got]
            ctx.violation('image-unrecorded-address-read:%s' % m['kind'], 'dump-sector of track %d sector %d, an address that was never recorded, succeeded and shows %s' % (
                m['t'], m['s'], ('the data recorded as track %d sector %d' % src[0]) if src else 'other data'), common.replay_of(c))
            continue
        if got == m['want'] and not m['deleted']:
            ctx.count('image-read.correct')
            continue
        if m['deleted']:
            ctx.violation('image-deleted-record-read:%s' % m['kind'], 'dump-sector of track %d sector %d, recorded with a deleted-data mark (%s), succeeded' % (m['t'], m['s'], m['damage']),
                          common.replay_of(c))
            continue
        src = [k for k, v in m['content'].items() if v == got]
        ctx.violation('image-wrong-sector:%s' % m['kind'],
                      'dump-sector of track %d sector %d of a %s image with a %s track succeeded but shows %s' % (
                          m['t'], m['s'], m['kind'], m['damage'], ('the data recorded as track %d sector %d' % src[0]) if src else 'data that was never recorded'),
                      common.replay_of(c))


def parse_hexdump(out):
    """bytes shown by dump-sector's hexdump (offset, 8 hex bytes per row, text)"""
    data = bytearray()
    for line in out.split(b'\n'):
        parts = line.split()
        if len(parts) < 2:
            continue
        for tok in parts[1:9]:
            if len(tok) == 2:
                try:
                    data.append(int(tok, 16))
                except ValueError:
                    break
            else:
                break
    return bytes(data)


def replay(ctx, rp):
    r = rp.get('replay', rp)
    print(rp.get('what'))
    if 'request' in r:
        impl = ctx.build('asan')
        ib, irc, ierr = vlib.run_lines(impl['harness'], [r['request']])
        print('real decoder now returns:', (ib[0] if ib else 'nothing')[:2000])
