"""C04 — sector-dump containers map (drive, track, sector) to the documented offset."""
import vlib
from gen import discs
from props import common

LEAN_MODULE = 'Beeb.Props.C04'
LEAVES = ['fileview_pos', 'fileview_unformatted', 'fileview_beyond', 'geometry_total_sectors', 'sector_count']
RULE = ('containers .ssd/.sdd (1 and 2 sides), .dsd/.ddd, .mmb (sparse, all 511 slots, every status byte) x geometries 35/40/80 x 10/16/18; '
        'every sector of the file carries its own file-sector index, so dump-sector DRIVE TRACK SECTOR shows which file sector was read; '
        'compared with the documented offset (spec) and the Lean model. Non-trivial = (container, geometry, side, track, sector) distinct.')
ASSUMPTIONS = ['drive numbers follow the default physical allocation: side k of one image is drive 2k; MMB slot k is drive 2k']


def stamp(i):
    """256-byte sector identifying file sector i"""
    return (b'S' + i.to_bytes(3, 'big')) * 64


def stamp2(i):
    """a stamp that cannot be mistaken for a catalogue sector (byte 5 is not a multiple of 8)"""
    return bytes(b ^ 0xFF for b in stamp(i))


def build_side(tracks, spt, title, large=False):
    total = tracks * spt if large else min(1023, tracks * spt)       # large: the 11-bit sector count of a Watford-style 80x18 disc
    cat = discs.AbsCat(title, 0, 0, total, [])
    return cat.sectors()


def container(kind, tracks, spt, sides):
    """returns (name, bytes, lambda side,t,s -> documented file sector index)"""
    n_side = tracks * spt
    if kind == 'ni':
        nsec = n_side * sides
        img = bytearray(b''.join(stamp(i) for i in range(nsec)))
        for sd in range(sides):
            a, b = build_side(tracks, spt, b'SIDE%d' % sd)
            img[sd * n_side * 256: sd * n_side * 256 + 512] = a + b
        name = 'c.sdd' if spt != 10 else 'c.ssd'
        return name, bytes(img), (lambda sd, t, s: sd * n_side + t * spt + s)
    if kind == 'il':
        nsec = n_side * 2
        img = bytearray(b''.join(stamp(i) for i in range(nsec)))
        for sd in range(2):
            a, b = build_side(tracks, spt, b'SIDE%d' % sd)
            img[sd * spt * 256: sd * spt * 256 + 512] = a + b
        name = 'c.ddd' if spt != 10 else 'c.dsd'
        return name, bytes(img), (lambda sd, t, s: (2 * t + sd) * spt + s)
    raise ValueError(kind)


def parse_hexdump(out):
    data = bytearray()
    for line in out.split(b'\n'):
        if not line:
            continue
        for tok in line[6:30].split():
            if tok != b'**':
                data.append(int(tok, 16))
    return bytes(data)


def run(ctx):
    r = ctx.rng
    impl = ctx.build('asan')
    cases = []
    combos = []
    for tracks in (35, 40, 80):
        for spt in (10, 16, 18):
            combos += [('ni', tracks, spt, 1), ('ni', tracks, spt, 2), ('il', tracks, spt, 2)]
    per = 6 if ctx.tier == 'quick' else 60
    for (kind, tracks, spt, sides) in combos:
        name, img, spec = container(kind, tracks, spt, sides)
        pts = set()
        pts.update([(sd, 0, 2) for sd in range(sides)] + [(sides - 1, tracks - 1, spt - 1), (0, tracks - 1, spt - 1), (sides - 1, 1, 0)])
        while len(pts) < per:
            pts.add((r.below(sides), r.below(tracks), r.below(spt)))
        if ctx.tier == 'thorough' and tracks * spt * sides <= 1600:
            pts = set((sd, t, s) for sd in range(sides) for t in range(tracks) for s in range(spt))
        for (sd, t, s) in sorted(pts):
            if (t, s) in ((0, 0), (0, 1)):
                continue    # catalogue sectors carry no stamp
            cases.append(vlib.Case('%s-%d-%d-%d' % (kind, tracks, spt, sides), {name: img},
                                   ['--file', '@' + name, 'dump-sector', str(2 * sd), str(t), str(s)],
                                   meta={'kind': kind, 'tracks': tracks, 'spt': spt, 'sides': sides, 'want': spec(sd, t, s), 'pt': (sd, t, s)}))
        # beyond the end of the surface
        cases.append(vlib.Case('%s-%d-%d-%d' % (kind, tracks, spt, sides), {name: img},
                               ['--file', '@' + name, 'dump-sector', '0', str(tracks), '0'],
                               meta={'kind': kind, 'tracks': tracks, 'spt': spt, 'sides': sides, 'want': None, 'pt': (0, tracks, 0)}))
    # two-sided interleaved images whose second side is unformatted (all zero / all E5): side 0 is a usable drive
    for (tracks, spt) in ((40, 10), (80, 10), (40, 18), (80, 18), (35, 10)):
        for fillb in (0x00, 0xE5):
            n_side = tracks * spt
            img = bytearray()
            a, b = build_side(tracks, spt, b'SIDE0')
            for t in range(tracks):
                for s_ in range(spt):
                    sec = t * spt + s_
                    img += a if sec == 0 else b if sec == 1 else stamp2((2 * t) * spt + s_)
                img += bytes([fillb]) * (spt * 256)
            bname = 'u.ddd' if spt != 10 else 'u.dsd'
            for (t, s_) in ((0, 2), (tracks - 1, spt - 1), (tracks // 2, 1)):
                cases.append(vlib.Case('blank2-%d-%d-%02x' % (tracks, spt, fillb), {bname: bytes(img)}, ['--file', '@' + bname, 'dump-sector', '0', str(t), str(s_)],
                                       meta={'kind': 'il', 'tracks': tracks, 'spt': spt, 'sides': 2, 'want': (2 * t) * spt + s_, 'pt': (0, t, s_), 'blank2': True}))
    # the same kind of image cut short (a copy that stops once the formatted side has no more data to offer): at most one side's worth of
    # sectors is left, the second side is still unformatted - tracks must still alternate by side, and what is cut off must fail to read
    for (tracks, spt, keep_tracks) in ((40, 10, 20), (40, 10, 13), (80, 10, 40), (40, 18, 19)):
        img = bytearray()
        a, b = build_side(tracks, spt, b'SIDE0')
        for t in range(tracks):
            for s_ in range(spt):
                sec = t * spt + s_
                img += a if sec == 0 else b if sec == 1 else stamp2((2 * t) * spt + s_)
            img += bytes([0xE5]) * (spt * 256)
        cut = bytes(img[:keep_tracks * spt * 256])           # holds tracks 0 .. keep_tracks/2 - 1 of both sides (and half a pair when odd)
        bname = 'v.ddd' if spt != 10 else 'v.dsd'
        have = keep_tracks // 2
        for (t, s_) in ((0, 2), (1, 0), (1, spt - 1), (2, 3), (have - 1, spt - 1), (have + 1, 0), (tracks - 1, 0)):
            present = (2 * t) * spt + s_ < keep_tracks * spt
            cases.append(vlib.Case('blank2-cut-%d-%d-%d' % (tracks, spt, keep_tracks), {bname: cut}, ['--file', '@' + bname, 'dump-sector', '0', str(t), str(s_)],
                                   meta={'kind': 'il', 'tracks': tracks, 'spt': spt, 'sides': 2, 'want': ((2 * t) * spt + s_) if present else None, 'pt': (0, t, s_),
                                         'blank2': True, 'truncated': True}))
    # an 80-track double-density disc whose catalogue records all 1440 sectors (bit 10 of the count in sector 1 byte 6)
    n_side = 80 * 18
    img = bytearray(b''.join(stamp(i) for i in range(n_side)))
    a, b = build_side(80, 18, b'LARGE', large=True)
    img[0:512] = a + b
    for (t, s_) in ((0, 2), (34, 17), (35, 0), (40, 3), (79, 17)):
        cases.append(vlib.Case('large-80-18', {'l.sdd': bytes(img)}, ['--file', '@l.sdd', 'dump-sector', '0', str(t), str(s_)],
                               meta={'kind': 'ni', 'tracks': 80, 'spt': 18, 'sides': 1, 'want': t * 18 + s_, 'pt': (0, t, s_), 'large': True}))
    # truncated images (the file stops before the end of the surface, at lengths that are not multiples of anything convenient):
    # sectors that exist read correctly, sectors beyond the end of the file fail
    for (tracks, spt, keep_sectors, extra) in ((40, 10, 37, 0), (40, 10, 100, 100), (80, 10, 33, 255), (40, 18, 50, 0), (80, 18, 17, 1)):
        name, img, spec = container('ni', tracks, spt, 1)
        cut = img[:keep_sectors * 256 + extra]
        tname = 't' + name
        for sec in sorted(set([2, 3, keep_sectors - 1, keep_sectors, keep_sectors + 1, keep_sectors + 2, keep_sectors + 15, keep_sectors + 16, keep_sectors + 17,
                               (keep_sectors // 16) * 16 + 15, (keep_sectors // 16 + 1) * 16, tracks * spt - 1])):
            if sec < 2 or sec >= tracks * spt:
                continue
            t, s_ = divmod(sec, spt)
            cases.append(vlib.Case('trunc-%d-%d-%d+%d' % (tracks, spt, keep_sectors, extra), {tname: cut}, ['--file', '@' + tname, 'dump-sector', '0', str(t), str(s_)],
                                   meta={'kind': 'ni', 'tracks': tracks, 'spt': spt, 'sides': 1, 'want': (spec(0, t, s_) if sec < keep_sectors else None), 'pt': (0, t, s_), 'truncated': True}))
    # MMB: sparse archive, every status value somewhere, slots probed incl. 0, 1, 255, 510
    statuses = {}
    probe = [0, 1, 2, 15, 16, 254, 255, 256, 509, 510] + [r.below(511) for _ in range(6 if ctx.tier == 'quick' else 120)]
    table = {}
    idx = bytearray(8192)
    for sl in range(511):
        st = sl % 256 if ctx.tier == 'thorough' else r.choice([0x00, 0x0F, 0xF0, 0xFF, r.below(256)])
        if sl in (0, 1, 510):
            st = r.choice([0x00, 0x0F])
        statuses[sl] = st
        idx[16 * (sl + 1) + 15] = st
        idx[16 * (sl + 1): 16 * (sl + 1) + 8] = b'DISC%04d' % sl
    for k in range(32):
        table[k] = bytes(idx[k * 256:(k + 1) * 256])
    for sl in set(probe):
        base = 32 + sl * 800
        a, b = build_side(80, 10, b'SLOT%d' % sl)
        table[base], table[base + 1] = a, b
        for (t, s) in [(0, 2), (79, 9), (r.below(80), r.below(10)), (r.range(1, 79), r.below(10))]:
            table[base + t * 10 + s] = stamp(base + t * 10 + s)
    # slot 0: the catalogue claims 1023 sectors and file $.LAST occupies sectors 798..800, i.e. one sector beyond the 800-sector slot:
    # the sector after the slot is sector 0 of slot 1 and must never be delivered as part of slot 0
    last = discs.AbsFile(0x24, b'LAST', False, 0, 0, 798, b'', length=768)
    a, b = discs.AbsCat(b'SLOT0', 0, 0, 1023, [last]).sectors()
    table[32], table[33] = a, b
    table[32 + 798], table[32 + 799] = stamp(32 + 798), stamp(32 + 799)
    mmb = vlib.Sparse(32 + 511 * 800, table)
    for cmd in (['type', '--binary', ':0.$.LAST'], ['dump', ':0.$.LAST'], ['extract-files', '@out']):
        cases.append(vlib.Case('mmb-cross', {'a.mmb': mmb}, ['--file', '@a.mmb'] + cmd, dest='out' if '@out' in cmd else None,
                               meta={'kind': 'mmb', 'slot': 0, 'status': statuses[0], 'want': 'cross', 'pt': ('cross', cmd[0])}))
    for sl in sorted(set(probe)):
        base = 32 + sl * 800
        for (t, s) in [(t, s) for (t, s) in [(0, 2), (79, 9)] + [((k - base) // 10, (k - base) % 10) for k in table if base + 2 <= k < base + 800]]:
            cases.append(vlib.Case('mmb', {'a.mmb': mmb}, ['--file', '@a.mmb', 'dump-sector', str(2 * sl), str(t), str(s)],
                                   meta={'kind': 'mmb', 'slot': sl, 'status': statuses[sl], 'want': base + t * 10 + s, 'pt': (sl, t, s)}))
    cases = list({tuple(c.real_argv if hasattr(c, 'real_argv') else [str(a) for a in c.argv]) + (c.tag,): c for c in cases}.values())
    vlib.run_cases(cases, impl['dfs'], timeout=60)
    for c in cases:
        m = c.meta
        common.compare_model(ctx, c, 'e2e-dump-sector-' + m['kind'])
        i = c.impl
        ctx.oracle_cases += 1
        ctx.count('kind.%s' % m['kind'])
        ctx.case((c.tag, m['pt']), True, sample={'argv': [a.decode('latin-1') for a in c.real_argv[2:]], 'container': c.tag, 'documented_file_sector': m['want']})
        # oracle-spec tie: the documented offset and slot status used here are Beeb.Spec.offset* / slotPresent
        if m['kind'] == 'mmb':
            vlib.spec_tie('slotpresent %d' % m['status'], '1' if m['status'] in (0x00, 0x0F) else '0')
        if isinstance(m['want'], int) and len(m['pt']) == 3 and all(isinstance(x, int) for x in m['pt']):
            sd_, t_, s_ = m['pt']
            if m['kind'] == 'ni':
                vlib.spec_tie('offni %d %d %d %d %d' % (m['tracks'], m['spt'], sd_, t_, s_), str(m['want']))
            elif m['kind'] == 'il':
                vlib.spec_tie('offil %d %d %d %d' % (m['spt'], sd_, t_, s_), str(m['want']))
            elif m['kind'] == 'mmb':
                vlib.spec_tie('offmmb %d %d %d' % (sd_, t_, s_), str(m['want']))
        if common.crash_violation(ctx, c):
            continue
        if m['kind'] == 'mmb' and m['status'] not in (0x00, 0x0F):
            ctx.count('mmb.unformatted-slot')
            if i['exit'] == 0:
                ctx.violation('mmb-unformatted-readable', 'MMB slot %d with status 0x%02X (not formatted) was readable' % (m['slot'], m['status']), common.replay_of(c))
            continue
        if m['want'] == 'cross':
            next_slot = table[32 + 800][:8]
            leaked = next_slot in i['out'] or any(next_slot in v for v in i['files'].values())
            if i['exit'] == 0 or leaked:
                ctx.violation('mmb-file-crosses-slot-end', '%s of a file whose last sector lies beyond its MMB slot: exit %d%s' % (
                    m['pt'][1], i['exit'], ', bytes of the next slot delivered' if leaked else ''), common.replay_of(c))
            continue
        if m['want'] is None:
            if i['exit'] == 0:
                ctx.violation('beyond-end-readable', 'a read beyond the end of the %s succeeded' % ('image file' if m.get('truncated') else 'surface'), common.replay_of(c))
            continue
        got = parse_hexdump(i['out'])
        want = stamp2(m['want']) if m.get('blank2') else stamp(m['want'])
        if i['exit'] != 0 or got != want:
            if m.get('blank2'):
                key = 'blank-second-side'
            elif m.get('large'):
                key = 'large-sector-count'
            elif m['kind'] == 'ni' and m.get('sides') == 2:
                key = 'two-sided-noninterleaved'
            elif m.get('spt') == 16:
                key = '16-sectors-per-track'
            else:
                key = 'offset-%s' % m['kind']
            seen = int.from_bytes(got[1:4], 'big') if len(got) >= 4 and got[0:1] == b'S' else int.from_bytes(bytes(x ^ 0xFF for x in got[1:4]), 'big') if len(got) >= 4 and got[0:1] == b'\xac' else None
            ctx.violation(key, '%s %dx%dx%d: dump-sector %s read file sector %s, documented offset is sector %d (exit %d)' % (
                c.tag, m.get('tracks', 80), m.get('spt', 10), m.get('sides', 1), m['pt'], seen, m['want'], i['exit']), common.replay_of(c))


def replay(ctx, rp):
    print(rp.get('what'))
