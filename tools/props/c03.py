"""C03 — bbcbasic_to_text lists every well-formed program as doc/bbcbasic.5 defines."""
import vlib
from gen import basicprog
from props import common, basic_common as bc

LEAN_MODULE = 'Beeb.Props.C03'
LEAVES = ['target_line_number']
RULE = ('abstract well-formed programs per dialect (all tokens of the dialect, two-byte extensions, PDP11 C8 98 / C8 xx, line references incl. all '
        'boundary values, strings with bytes 0x01-0xFF incl. loop-token bytes, several loops per line, unclosed strings, line numbers 0 and max) x 10 dialect '
        'names x LISTO 0..7 x file/stdin; real binary output compared with the Python reference listing (oracle) and the Lean model; plus the repository\'s '
        'golden inputs. Non-trivial = program with at least one token item.')
ASSUMPTIONS = ['the Python reference renderer (tools/gen/basicprog.py) is the reading of doc/bbcbasic.5 and the BBC BASIC manual for LISTO']


def run(ctx):
    r = ctx.rng
    impl = ctx.build('asan')
    tbls = bc.tables(impl)
    cases = []
    n = 25 if ctx.tier == 'quick' else 400
    for name in bc.DIALECT_NAMES:
        for k in range(n):
            lines, tbl, be = bc.gen_for(r, tbls, name)
            data = basicprog.encode(lines, be)
            listo = r.below(8) if k >= 8 else k
            via_stdin = r.chance(1, 4)
            ctx.count('dialect.' + name)
            ctx.count('listo.%d' % listo)
            want = basicprog.render(lines, tbl, listo, dialect_idx=basicprog.DIALECTS[name][0])
            meta = {'dialect': name, 'listo': listo, 'want': want, 'nitems': sum(len(l.items) for l in lines), 'stdin': via_stdin}
            if via_stdin:
                cs_ = vlib.Case(name, {}, ['--dialect', name, '--listo=%d' % listo, '-'], tool='basic', stdin=data, meta=meta)
                cs_.stdin_seekable = (k % 2 == 0)      # `tool - < file` and `prog | tool -` alternate
                ctx.count('stdin.%s' % ('file' if cs_.stdin_seekable else 'pipe'))
                cases.append(cs_)
            else:
                cases.append(vlib.Case(name, {'p.bbc': data}, ['--dialect=' + name, '-l', str(listo), '@p.bbc'], tool='basic', meta=meta))
    if ctx.tier == 'thorough':
        # every encodable GOTO target, 512 per program
        for name in ('6502', 'Z80'):
            idx, be, canon = basicprog.DIALECTS[name]
            for base in range(0, 65536, 512):
                lines = []
                for j in range(8):
                    items = [basicprog.Item('tok', 0xE5)]
                    for q in range(64):
                        items += [basicprog.Item('ref', base + 64 * j + q)]
                        if len(items) < 60:
                            items.append(basicprog.Item('lit', 44))
                    # 4 bytes per reference: keep the line below 251 data bytes
                    lines.append(basicprog.Line(10 + j, items[:50]))
                data = basicprog.encode(lines, be)
                cases.append(vlib.Case(name, {'p.bbc': data}, ['--dialect', name, '--listo', '0', '@p.bbc'], tool='basic',
                                       meta={'dialect': name, 'listo': 0, 'want': basicprog.render(lines, tbls[canon], 0, dialect_idx=idx), 'nitems': 999, 'stdin': False}))
    vlib.run_cases(cases, bc.bins(impl))
    for c in cases:
        bc.compare(ctx, c, 'e2e-listing')
        m = c.meta
        i = c.impl
        ctx.oracle_cases += 1
        ctx.case((m['dialect'], m['listo'], c.stdin or c.files.get('p.bbc')), m['nitems'] > 0,
                 sample={'argv': [a.decode('latin-1') for a in c.real_argv], 'program_hex': (c.stdin or c.files.get('p.bbc')).hex()[:120]})
        if common.crash_violation(ctx, c):
            continue
        if i['exit'] != 0 or i['out'] != m['want'] or i['err']:
            k = next((j for j in range(min(len(i['out']), len(m['want']))) if i['out'][j] != m['want'][j]), min(len(i['out']), len(m['want'])))
            ctx.violation('listing-differs', 'dialect %s LISTO %d (%s): exit %d, stderr %r; listing differs from the documented one at byte %d: got %r expected %r' % (
                m['dialect'], m['listo'], 'stdin' if m['stdin'] else 'file', i['exit'], i['err'][:80], k, i['out'][max(0, k - 20):k + 20], m['want'][max(0, k - 20):k + 20]),
                common.replay_of(c, {'stdin_hex': c.stdin.hex() if c.stdin else None}))


def replay(ctx, rp):
    print(rp.get('what'))
