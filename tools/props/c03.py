"""C03 — bbcbasic_to_text lists every well-formed program as doc/bbcbasic.5 defines."""
import vlib
from gen import basicprog
from props import common, basic_common as bc

LEAN_MODULE = 'Beeb.Props.C03'
LEAVES = ['target_line_number']
RULE = ('abstract well-formed programs per dialect (all tokens of the dialect, two-byte extensions, PDP11 C8 98 / C8 xx, line references incl. all '
        'boundary values, strings with bytes 0x01-0xFF incl. loop-token bytes, several loops per line, unclosed strings, line numbers 0 and max) x 10 dialect '
        'names x LISTO 0..7 x file/stdin; real binary output compared with the Python reference listing (oracle) and the Lean model; plus the repository\'s '
        'golden inputs. Non-trivial = program with at least one token item.')
ASSUMPTIONS = ['the Python reference renderer (tools/gen/basicprog.py) is the reading of doc/bbcbasic.5 and the BBC BASIC manual for LISTO']


def run(ctx):
    r = ctx.rng
    impl = ctx.build('asan')
    tbls = bc.tables(impl)
    cases = []
    n = 40 if ctx.tier == 'quick' else 400
    for name in bc.DIALECT_NAMES:
        for k in range(n):
            lines, tbl, be = bc.gen_for(r, tbls, name)
            data = basicprog.encode(lines, be)
            listo = r.below(8) if k >= 8 else k
            via_stdin = r.chance(1, 4)
            ctx.count('dialect.' + name)
            ctx.count('listo.%d' % listo)
            want = basicprog.render(lines, tbl, listo, dialect_idx=basicprog.DIALECTS[name][0])
            meta = {'dialect': name, 'listo': listo, 'want': want, 'nitems': sum(len(l.items) for l in lines), 'stdin': via_stdin}
            if via_stdin:
                cs_ = vlib.Case(name, {}, ['--dialect', name, '--listo=%d' % listo, '-'], tool='basic', stdin=data, meta=meta)
                cs_.stdin_seekable = (k % 2 == 0)      # `tool - < file` and `prog | tool -` alternate
                ctx.count('stdin.%s' % ('file' if cs_.stdin_seekable else 'pipe'))
                cases.append(cs_)
            else:
                cases.append(vlib.Case(name, {'p.bbc': data}, ['--dialect=' + name, '-l', str(listo), '@p.bbc'], tool='basic', meta=meta))
    if ctx.tier == 'thorough':
        # every encodable GOTO target, 512 per program
        for name in ('6502', 'Z80'):
            idx, be, canon = basicprog.DIALECTS[name]
            for base in range(0, 65536, 512):
                lines = []
                for j in range(8):
                    items = [basicprog.Item('tok', 0xE5)]
                    for q in range(64):
                        items += [basicprog.Item('ref', base + 64 * j + q)]
                        if len(items) < 60:
                            items.append(basicprog.Item('lit', 44))
                    # 4 bytes per reference: keep the line below 251 data bytes
                    lines.append(basicprog.Line(10 + j, items[:50]))
                data = basicprog.encode(lines, be)
                cases.append(vlib.Case(name, {'p.bbc': data}, ['--dialect', name, '--listo', '0', '@p.bbc'], tool='basic',
                                       meta={'dialect': name, 'listo': 0, 'want': basicprog.render(lines, tbls[canon], 0, dialect_idx=idx), 'nitems': 999, 'stdin': False}))
    # several input files in one run: each file is listed as if it were alone (the indentation a program leaves behind - loops
    # it never closes, or closes without opening - must not reach the next file), whether a file comes by name or as `-`
    for name in bc.DIALECT_NAMES:
        idx, be, canon = basicprog.DIALECTS[name]
        tbl = tbls[canon]
        toks, _, _ = basicprog.valid_tokens(tbl)
        if not all(t in toks for t in (0xE3, 0xED, 0xF5, 0xFD, 0xF1)):
            continue
        T, L, I = (lambda t: basicprog.Item('tok', t)), basicprog.Line, (lambda c: basicprog.Item('lit', c))
        opens = [L(10, [T(0xE3), I(73)]), L(20, [T(0xF5)]), L(30, [T(0xE3), I(74)]), L(40, [T(0xF1), I(73)])]        # FOR I / REPEAT / FOR J / PRINT I : ends 6 deep
        closes = [L(10, [T(0xED)]), L(20, [T(0xFD), I(48)]), L(30, [T(0xF1), I(49)])]                                # NEXT / UNTIL 0 / PRINT 1 : ends below zero
        plain = [L(10, [T(0xF1), basicprog.Item('str', b'HELLO', True)]), L(20, [T(0xE3), I(75)]), L(30, [T(0xED)])]
        for (seq, listo) in (((opens, plain), 7), ((closes, plain), 7), ((plain, opens, plain), 2), ((opens, closes), 4), ((opens, plain), 0), ((closes, opens, plain), 6)):
            files = {'f%d.bbc' % j: basicprog.encode(p_, be) for j, p_ in enumerate(seq)}
            want = b''.join(basicprog.render(p_, tbl, listo, dialect_idx=idx) for p_ in seq)
            meta = {'dialect': name, 'listo': listo, 'want': want, 'nitems': 9, 'stdin': False, 'multi': len(seq)}
            cases.append(vlib.Case(name, files, ['--dialect', name, '--listo', str(listo)] + ['@f%d.bbc' % j for j in range(len(seq))], tool='basic', meta=meta))
            # the last file on standard input
            files2 = {k_: v_ for k_, v_ in list(files.items())[:-1]}
            cases.append(vlib.Case(name, files2, ['--dialect', name, '--listo', str(listo)] + ['@f%d.bbc' % j for j in range(len(seq) - 1)] + ['-'], tool='basic',
                                   stdin=basicprog.encode(seq[-1], be), meta=dict(meta, stdin=True)))
            ctx.count('multi-file')
    vlib.run_cases(cases, bc.bins(impl))
    for c in cases:
        bc.compare(ctx, c, 'e2e-listing')
        m = c.meta
        i = c.impl
        ctx.oracle_cases += 1
        ctx.case((m['dialect'], m['listo'], m.get('multi'), c.stdin or c.files.get('p.bbc') or b''.join(c.files.values())), m['nitems'] > 0,
                 sample={'argv': [a.decode('latin-1') for a in c.real_argv], 'program_hex': (c.stdin or c.files.get('p.bbc') or b''.join(c.files.values())).hex()[:120]})
        if common.crash_violation(ctx, c):
            continue
        if i['exit'] != 0 or i['out'] != m['want'] or i['err']:
            k = next((j for j in range(min(len(i['out']), len(m['want']))) if i['out'][j] != m['want'][j]), min(len(i['out']), len(m['want'])))
            ctx.violation('listing-differs', 'dialect %s LISTO %d (%s): exit %d, stderr %r; listing differs from the documented one at byte %d: got %r expected %r' % (
                m['dialect'], m['listo'], 'stdin' if m['stdin'] else 'file', i['exit'], i['err'][:80], k, i['out'][max(0, k - 20):k + 20], m['want'][max(0, k - 20):k + 20]),
                common.replay_of(c, {'stdin_hex': c.stdin.hex() if c.stdin else None}))


def replay(ctx, rp):
    print(rp.get('what'))
