"""C12 — dfs writes only where it was told to and never alters an image."""
import hashlib
import os
import shutil
import tempfile

import vlib
from gen import discs
from props import common

LEAN_MODULE = 'Beeb.Props.C12'
LEAVES = ['directory', 'byte_to_ascii7']
RULE = ('hostile catalogues whose 7-character names and directory bytes take every value 0x01-0x7F (/, .., ., leading -, control characters, NUL-terminated early) '
        'x all commands x destination with and without trailing slash, each run in a fresh sandbox directory tree; the tree (paths, sizes, SHA-256) is snapshotted '
        'before and after: created paths must be directly inside the destination, only extract-files/extract-unused may create anything, images must be unchanged. '
        'Non-trivial = catalogue containing a name with a byte outside [A-Za-z0-9].')
ASSUMPTIONS = ['what the OS does with a path string is observed (snapshots), not proved; the theorem is about the path strings the model passes to open()']


def snapshot(root):
    out = {}
    for d, ds, fs in os.walk(root):
        for f in fs:
            p = os.path.join(d, f)
            try:
                with open(p, 'rb') as fh:
                    out[os.path.relpath(p, root)] = hashlib.sha256(fh.read()).hexdigest()
            except OSError:
                out[os.path.relpath(p, root)] = 'unreadable'
        for x in ds:
            out[os.path.relpath(os.path.join(d, x), root) + '/'] = 'dir'
    return out


HOSTILE_NAMES = [b'..\xafp', b'\xae\xae\xafq', b'\xafabs', b'a\xafb', b'../../x', b'/', b'a/b', b'.', b'..', b'-rf', b'/etc/pw', b'..\x00', b'x\ny', b'\x01\x02', b'a b', b'~', b'$HOME', b'`id`', b'*', b'A' * 7, b'../x', b'/x', b'x/', b'//']


WATCHED = ['/', '/tmp', os.path.expanduser('~'), '/var/tmp']


def outside_listing():
    """names directly inside a few directories an absolute or home-relative path would land in"""
    out = set()
    for d in WATCHED:
        try:
            out.update(os.path.join(d, n) for n in os.listdir(d))
        except OSError:
            pass
    return out


def hostile_disc(r, k=0, pairs=None):
    files = []
    pos = 2
    used = set()
    n = r.range(2, 12) if pairs is None else 0     # a pairs disc holds nothing that could end the extraction early
    for j in range(n):
        if j == n - 1:
            nm = HOSTILE_NAMES[k % len(HOSTILE_NAMES)]     # first in catalogue order: processed first
        elif r.chance(1, 3):
            nm = r.choice(HOSTILE_NAMES)
        else:
            nm = bytes(r.range(1, 0x7F) for _ in range(r.range(1, 7)))
        d = r.choice([0x24, 0x24, 0x2F, 0x2E, 0x2D, 0x41, r.range(1, 0x7F)]) if j != n - 1 else [0x24, 0x2F, 0x2E, 0x41][(k // len(HOSTILE_NAMES)) % 4]
        if (d, nm) in used:
            continue
        used.add((d, nm))
        body = b'BODY%d' % j
        files.append(discs.AbsFile(d, nm[:7], r.chance(1, 5), 0, 0, pos, body))
        pos += 1
    # pairs of entries whose host names coincide once '/' has been made harmless ('_x' and '/x' in directory '.', i.e. "._x" and "../x"),
    # in both catalogue orders: whatever is done about the collision, the second of the pair must not fall back to its raw name
    if pairs is not None:
        flip = pairs % 2 == 1
        # one pair per disc: a failure to create one file ends the extraction, so a second pair would never be reached
        pairs = [[((0x2E, b'_x'), (0x2E, b'/x'))], [((0x24, b'A_B'), (0x24, b'A/B'))], [((0x5F, b'Q'), (0x2F, b'Q'))]][(pairs // 2) % 3]
        for (first, second) in pairs:
            if flip:
                first, second = second, first
            for (d_, nm_) in (second, first):            # the list is reversed below: `first` comes first in catalogue order
                if (d_, nm_) not in used and pos < 390:
                    used.add((d_, nm_))
                    files.append(discs.AbsFile(d_, nm_, False, 0, 0, pos, b'PAIR%d' % pos))
                    pos += 1
    files.reverse()
    d = discs.AbsDisc('dfs', 40, 10)
    d.cats = [discs.AbsCat(b'HOSTILE', 0, 0, 400, files)]
    return d


def run(ctx):
    r = ctx.rng
    impl = ctx.build('asan')
    n = 25 if ctx.tier == 'quick' else 300
    root = tempfile.mkdtemp(prefix='beebverif-c12-')
    try:
        for k in range(n + 6):
            d = hostile_disc(r, k, pairs=k - n) if k >= n else hostile_disc(r, k) if k < 20 or r.chance(3, 4) else discs.gen_disc(r, hostile=True, max_files=8)
            img = d.encode(discs.filler(r))
            sb = os.path.join(root, 's%d' % k)
            os.makedirs(os.path.join(sb, 'a', 'b', 'images'))
            os.makedirs(os.path.join(sb, 'a', 'b', 'dest'))
            os.makedirs(os.path.join(sb, 'a', 'b', 'dest2', 'sub'))
            open(os.path.join(sb, 'a', 'canary'), 'wb').write(b'canary')
            ip = os.path.join(sb, 'a', 'b', 'images', 'disc' + d.extension())
            open(ip, 'wb').write(img)
            hostile = any(not f.shown_name().isalnum() or not chr(f.dir).isalnum() for (_, _, _, f) in d.all_files())
            longdest = 'dest2/sub/' + 'L' * 120 + '/' + 'M' * 110 + '/' + 'N' * 40
            cmds = [['extract-unused', 'newdir/sub/deeper'], ['extract-files', 'newdir2/sub'], ['--drive', '1', 'extract-unused', 'newdir3/sub'], ['extract-unused', longdest], ['extract-files', longdest], ['extract-files', 'dest'], ['extract-files', 'dest/'], ['extract-files', 'dest2/sub'], ['extract-unused', 'dest'], ['extract-unused', 'dest/'],
                    ['--dir', '/', 'extract-files', 'dest'], ['--dir', '.', 'extract-files', 'dest/'],
                    ['cat'], ['info', '*.*'], ['free'], ['space'], ['sector-map'], ['show-titles'], ['type', '$.X'], ['dump', '/'], ['list', '..'], ['dump-sector', '0', '0', '0'], ['help']]
            if ctx.tier == 'quick':
                cmds = cmds[:12] + r.shuffle(cmds[12:])[:4]
            for cmd in cmds:
                cwd = os.path.join(sb, 'a', 'b')
                # fresh destination for every command
                for dd in ('dest', 'dest2/sub'):
                    shutil.rmtree(os.path.join(cwd, dd), ignore_errors=True)
                    os.makedirs(os.path.join(cwd, dd))
                os.makedirs(os.path.join(cwd, longdest))
                before = snapshot(sb)
                out_before = outside_listing()
                rc, so, se = vlib.run_cmd([impl['dfs'], '--file', 'images/disc' + d.extension()] + cmd, cwd=cwd, timeout=30)
                after = snapshot(sb)
                escaped = sorted(p for p in outside_listing() - out_before if not os.path.basename(p).startswith(('beebverif', 'tmp', 'LeafCandidate', 'lake', '.lake')))
                ctx.oracle_cases += 1
                ctx.count('cmd.' + (cmd[0] if not cmd[0].startswith('--') else cmd[2]))
                ctx.case((k, tuple(cmd)), hostile, sample={'cmd': cmd, 'names': [bytes([f.dir]).decode('latin-1') + '.' + f.shown_name().decode('latin-1') for (_, _, _, f) in d.all_files()][:6]})
                rp = {'argv': ['--file', 'images/disc' + d.extension()] + cmd, 'cwd': 'a/b', 'image_hex': img.hex(), 'exit': rc, 'stderr': se[-300:].decode('latin-1')}
                if vlib.crashed(rc, se):
                    ctx.violation('crash:' + cmd[0], 'dfs crashed: %s' % common.first_error_line(se), rp)
                    continue
                created = sorted(p for p in after if p not in before)
                changed = sorted(p for p in before if p in after and after[p] != before[p])
                removed = sorted(p for p in before if p not in after)
                dest = next((a for a in cmd if a.startswith(('dest', 'newdir'))), None)
                before = {p: v for p, v in before.items()}
                allowed_prefix = os.path.normpath(os.path.join('a', 'b', dest)) + '/' if dest else None
                bad = [p for p in created if not (allowed_prefix and p.startswith(allowed_prefix) and '/' not in p[len(allowed_prefix):].rstrip('/') )]
                # a created *directory* is never legitimate
                bad += [p for p in created if p.endswith('/')]
                if escaped:
                    # other processes also create files in /tmp: only names that come from this catalogue count
                    # other processes create files in /tmp too: only a file whose name is exactly what this catalogue could produce counts
                    cand = set()
                    for (_, _, _, f) in d.all_files():
                        nm_ = f.shown_name().decode('latin-1')
                        dn_ = chr(f.dir & 0x7F)
                        for leaf in (nm_, dn_ + '.' + nm_, '.' + nm_, nm_.replace('/', '_'), (dn_ + '.' + nm_).replace('/', '_')):
                            leaf = leaf.split('/')[-1]
                            if leaf:
                                cand.update([leaf, leaf + '.inf'])
                    mine = [p for p in escaped if os.path.basename(p) in cand]
                    for p in mine:
                        try:
                            os.unlink(p)
                        except OSError:
                            pass
                    if mine:
                        ctx.violation('created-outside-sandbox', '`%s` created %s, far outside the destination directory' % (' '.join(cmd), mine[:3]), rp)
                if changed or removed:
                    key = 'image-altered' if any('images/' in p for p in changed + removed) else 'file-altered'
                    ctx.violation(key, '`%s` altered or removed %s' % (' '.join(cmd), (changed + removed)[:3]), rp)
                if bad:
                    key = 'created-outside-destination' if dest else 'non-extract-command-created-files'
                    ctx.violation(key, '`%s` created %s (destination %s)' % (' '.join(cmd), bad[:3], dest), rp)
        # a catalogue entry named like the image itself, extracted into the directory that holds the image (also through a
        # symbolic link and another spelling of the path): the image must survive
        for k2, (entry, how) in enumerate([(b'X.ssd', 'plain'), (b'X.ssd', 'dotdot'), (b'LNK', 'symlink'), (b'X.ssd', 'unused-named'), (b'X.ssd', 'ui-after'),
                                           (b'X.ssd', 'dir-after'), (b'X.ssd', 'two-images'), (b'X.ssd', 'verbose-after')]):
            f0 = discs.AbsFile(0x24, entry, False, 0, 0, 3, b'payload')
            f1 = discs.AbsFile(0x24, b'OTHER', False, 0, 0, 2, b'other')
            d = discs.AbsDisc('dfs', 40, 10)
            d.cats = [discs.AbsCat(b'SELF', 0, 0, 400, [f0, f1])]
            img = d.encode(lambda n: bytes(n))
            sb = os.path.join(root, 'self%d' % k2)
            os.makedirs(os.path.join(sb, 'w'))
            ip = os.path.join(sb, 'w', 'X.ssd')
            open(ip, 'wb').write(img)
            if how == 'symlink':
                os.symlink('X.ssd', os.path.join(sb, 'w', 'LNK'))
            argv = {'plain': ['--file', 'w/X.ssd', 'extract-files', 'w'], 'dotdot': ['--file', 'w/../w/X.ssd', 'extract-files', 'w/'],
                    'symlink': ['--file', 'w/X.ssd', 'extract-files', 'w'], 'unused-named': ['--file', 'w/X.ssd', 'extract-unused', 'w'],
                    'ui-after': ['--file', 'w/X.ssd', '--ui', 'acorn', 'extract-files', 'w'], 'dir-after': ['--file', 'w/X.ssd', '--dir', '$', '--drive', '0', 'extract-files', 'w'],
                    'two-images': ['--file', 'w/X.ssd', '--drive-first', '--file', 'w/X.ssd', '--ui', 'watford', 'extract-files', 'w/'],
                    'verbose-after': ['--file', 'w/X.ssd', '--verbose', '--show-config', 'extract-files', 'w']}[how]
            before = snapshot(sb)
            rc, so, se = vlib.run_cmd([impl['dfs']] + argv, cwd=sb, timeout=30)
            after = snapshot(sb)
            ctx.oracle_cases += 1
            ctx.count('self-overwrite.' + how)
            ctx.case(('self', how), True, sample={'cmd': argv, 'exit': rc})
            if after.get('w/X.ssd') != before.get('w/X.ssd'):
                ctx.violation('image-altered', '`%s` altered the image it was reading (%s): exit %d, stderr %r' % (' '.join(argv), how, rc, se[:120]),
                              {'argv': argv, 'cwd': 'sandbox', 'image_hex': img.hex(), 'exit': rc, 'stderr': se[-300:].decode('latin-1')})
        # a reader that goes away early (dfs ... | head -1): whatever dfs keeps in temporary storage must not be left behind
        import gzip as _gz
        import signal as _sig
        import subprocess as _sp
        big = discs.AbsFile(0x24, b'BIG', False, 0, 0, 2, (b'line of text\r' * 11000)[:140000])
        dg = discs.AbsDisc('dfs', 80, 10)
        dg.cats = [discs.AbsCat(b'PIPE', 0, 0, 800, [big])]
        gimg = dg.encode(lambda n: bytes(n))
        for k3, (fname, content, argv_tail) in enumerate([('g.ssd.gz', _gz.compress(gimg), ['type', 'BIG']), ('g.ssd.gz', _gz.compress(gimg), ['dump', 'BIG']),
                                                          ('g.ssd', gimg, ['type', 'BIG'])]):
            sb = os.path.join(root, 'pipe%d' % k3)
            os.makedirs(os.path.join(sb, 'tmpdir'))
            open(os.path.join(sb, fname), 'wb').write(content)
            before = snapshot(sb)
            out_before = outside_listing()
            env = dict(os.environ)
            env['TMPDIR'] = os.path.join(sb, 'tmpdir')
            env['ASAN_OPTIONS'] = 'detect_leaks=0'
            def pre_():
                # nobody reads: the first flush gets SIGPIPE (default action: the process dies); the pipe is made in the
                # child so that no other process can hold its read end
                _sig.signal(_sig.SIGPIPE, _sig.SIG_DFL)
                rd, wr = os.pipe()
                os.close(rd)
                os.dup2(wr, 1)
                os.close(wr)
            p_ = _sp.Popen([impl['dfs'], '--file', fname] + argv_tail, cwd=sb, stderr=_sp.DEVNULL, env=env, preexec_fn=pre_)
            try:
                p_.wait(timeout=60)
            except _sp.TimeoutExpired:
                p_.kill()
            after = snapshot(sb)
            left = sorted(p for p in after if p not in before) + sorted(p for p in outside_listing() - out_before if 'dfs' in os.path.basename(p).lower())
            ctx.oracle_cases += 1
            ctx.count('reader-gone.' + fname.split('.', 1)[1])
            ctx.case(('pipe', k3), True, sample={'cmd': argv_tail, 'image': fname, 'exit': p_.returncode})
            if left:
                ctx.violation('temporary-file-left-behind', '`dfs --file %s %s | (reader exits)` left %s behind' % (fname, ' '.join(argv_tail), left[:3]),
                              {'argv': ['--file', fname] + argv_tail, 'exit': p_.returncode, 'left': left[:10]})
    finally:
        shutil.rmtree(root, ignore_errors=True)


def replay(ctx, rp):
    print(rp.get('what'))
