"""C16 — every attached image gets its own drive number and commands read the right one."""
import re

import vlib
from gen import discs, flux
from props import common

LEAN_MODULE = 'Beeb.Props.C16'
LEAVES = ['opposite_surface']
RULE = ('random and exhaustive-to-depth sequences of --file / --drive-first / --drive-physical over one-sided .ssd, two-sided .dsd and sparse '
        'multi-slot .mmb images (every surface has a unique title and a unique file); for every prefix of the sequence the real dfs is run with '
        '--show-config show-titles, and cat/type are addressed to every occupied drive; the assignment is checked against the property '
        '(distinct, monotone, physical sides n/n+2 and no-opposite, first = lowest free) and stdout against the Lean model. '
        'Non-trivial = sequence with >= 2 images.')
ASSUMPTIONS = ['drive numbers beyond 2^32 are not exercised']


def one_sided(tag):
    cat = discs.AbsCat(tag.encode(), 0, 0, 400, [discs.AbsFile(0x24, b'ID', False, 0, 0, 2, tag.encode() + b'\r')])
    a, b = cat.sectors()
    img = bytearray(400 * 256)
    img[0:512] = a + b
    img[512:512 + len(tag) + 1] = tag.encode() + b'\r'
    return bytes(img)


def two_sided(tag):
    s0 = one_sided(tag + 'a')
    s1 = one_sided(tag + 'b')
    out = bytearray()
    for t in range(40):
        out += s0[t * 2560:(t + 1) * 2560] + s1[t * 2560:(t + 1) * 2560]
    return bytes(out)


def mmb(tag, present):
    """sparse MMB whose slots in `present` hold discs titled tag+slot"""
    idx = bytearray(8192)
    table = {}
    for sl in range(511):
        # other slots: unformatted, except one of unknown type (reported on stderr) and one marked invalid
        idx[16 * (sl + 1) + 15] = 0x0F if sl in present else 0x42 if sl == 3 else 0xFF if sl == 7 else 0xF0
    for k in range(32):
        table[k] = bytes(idx[k * 256:(k + 1) * 256])
    for sl in present:
        t = '%s%d' % (tag, sl)
        cat = discs.AbsCat(t.encode(), 0, 0, 800, [discs.AbsFile(0x24, b'ID', False, 0, 0, 2, t.encode() + b'\r')])
        a, b = cat.sectors()
        base = 32 + sl * 800
        table[base], table[base + 1] = a, b
        table[base + 2] = (t.encode() + b'\r').ljust(256, b'\0')
    return vlib.Sparse(32 + 511 * 800, table)


def half_blank_hfe(tag, formatted_side):
    """a two-sided FM HFE image (40 x 10) one side of which holds a disc (titled tag+'a' / tag+'b'), the other formatted but blank (E5):
    the blank side has no file system, yet it is a surface of the image and takes its drive number"""
    blank = bytes([0xE5]) * (400 * 256)
    sides = [one_sided(tag + 'a'), blank] if formatted_side == 0 else [blank, one_sided(tag + 'b')]
    trs = flux.tracks_of_image(sides[0] + sides[1], 40, 10, 2, False)
    return flux.hfe_image(trs, 2, True)


def opposite(d):
    return d + 2 if d % 4 < 2 else d - 2


def gen_sequence(r, maxlen):
    n = r.range(1, maxlen)
    seq = []
    for i in range(n):
        if r.chance(1, 3):
            seq.append(('policy', r.choice(['first', 'physical'])))
        kind = r.choice(['ssd', 'ssd', 'dsd', 'dsd', 'mmb'] if i < 3 else ['ssd', 'dsd'])
        seq.append(('file', kind, 'I' + chr(97 + i)))
    return seq


def surfaces_of(kind, tag):
    if kind == 'ssd':
        return [tag]
    if kind == 'hfa':
        return [tag + 'a']
    if kind == 'hfb':
        return [tag + 'b']
    if kind == 'dsd':
        return [tag + 'a', tag + 'b']
    return None


def run(ctx):
    r = ctx.rng
    impl = ctx.build('asan')
    seqs = []
    n = 30 if ctx.tier == 'quick' else 400
    # exhaustive to depth 3 over {ssd,dsd} x {first,physical}
    kinds = [('ssd', 'first'), ('ssd', 'physical'), ('dsd', 'first'), ('dsd', 'physical')]
    depth = 3 if ctx.tier == 'quick' else 4
    def rec(prefix, d):
        if prefix:
            seqs.append(list(prefix))
        if d == 0:
            return
        for (k, p) in kinds:
            rec(prefix + [('policy', p), ('file', k, 'I' + chr(97 + len(prefix) // 2))], d - 1)
    rec([], depth)
    for fixed in ([('file', 'dsd', 'Ia'), ('file', 'dsd', 'Ib')], [('file', 'dsd', 'Ia'), ('file', 'ssd', 'Ib'), ('file', 'dsd', 'Ic')],
                  [('file', 'mmb', 'Ia'), ('file', 'dsd', 'Ib')], [('file', 'ssd', 'Ia'), ('file', 'mmb', 'Ib'), ('file', 'ssd', 'Ic')],
                  [('policy', 'first'), ('file', 'mmb', 'Ia'), ('file', 'ssd', 'Ib')], [('file', 'ssd', 'Ia'), ('policy', 'first'), ('file', 'mmb', 'Ib'), ('policy', 'physical'), ('file', 'dsd', 'Ic')],
                  [('file', 'dsd', 'Ia'), ('policy', 'first'), ('file', 'ssd', 'Ib'), ('file', 'dsd', 'Ic')]):
        seqs.append(fixed)
    # two-sided flux images with one blank side: the blank side keeps its drive number (physical: n and n+2; first: two numbers in order)
    for fixed in ([('file', 'hfb', 'Ia')], [('file', 'hfa', 'Ia'), ('file', 'ssd', 'Ib')], [('policy', 'first'), ('file', 'hfb', 'Ia'), ('file', 'ssd', 'Ib')],
                  [('file', 'ssd', 'Ia'), ('file', 'hfb', 'Ib'), ('policy', 'first'), ('file', 'dsd', 'Ic')], [('policy', 'first'), ('file', 'hfa', 'Ia'), ('file', 'dsd', 'Ib')]):
        seqs.append(fixed)
    for _ in range(n):
        seqs.append(gen_sequence(r, 6))
    cases = []
    mmb_present = {0, 2, 5}        # with unformatted slots in between: they still occupy their drive numbers
    for si, seq in enumerate(seqs):
        files = {}
        argv = []
        nfiles = 0
        prefixes = []
        for op in seq:
            if op[0] == 'policy':
                argv.append('--drive-first' if op[1] == 'first' else '--drive-physical')
            else:
                kind, tag = op[1], op[2]
                name = '%s.%s' % (tag, 'hfe' if kind in ('hfa', 'hfb') else kind)
                files[name] = one_sided(tag) if kind == 'ssd' else two_sided(tag) if kind == 'dsd' else half_blank_hfe(tag, 0 if kind == 'hfa' else 1) if kind in ('hfa', 'hfb') else mmb(tag, mmb_present)
                argv += ['--file', '@' + name]
                nfiles += 1
                prefixes.append((list(argv), dict(files)))
        for pi, (av, fl) in enumerate(prefixes):
            cases.append(vlib.Case('s%d' % si, fl, av + ['--show-config', 'show-titles'],
                                   meta={'seq': seq, 'prefix': pi, 'si': si, 'last': pi == len(prefixes) - 1}))
    vlib.run_cases(cases, impl['dfs'], timeout=60)
    by_seq = {}
    for c in cases:
        by_seq.setdefault(c.meta['si'], []).append(c)
    followups = []
    for si, cs in by_seq.items():
        seq = cs[0].meta['seq']
        ctx.case(('seq', tuple(map(tuple, seq))), sum(1 for o in seq if o[0] == 'file') >= 2,
                 sample={'sequence': [' '.join(o) for o in seq]})
        prev = {}
        prev_occ = set()
        ops = [o for o in seq]
        file_ops = [(k, o) for k, o in enumerate(seq) if o[0] == 'file']
        policy = 'physical'
        pol_at = []
        for o in seq:
            if o[0] == 'policy':
                policy = o[1]
            else:
                pol_at.append(policy)
        for c in cs:
            common.compare_model(ctx, c, 'e2e-show-titles', compare_err=False)
            ctx.oracle_cases += 1
            if common.crash_violation(ctx, c):
                break
            i = c.impl
            rp = common.replay_of(c)
            has_mmb = any(o[0] == 'file' and o[1] in ('mmb', 'hfa', 'hfb') for o in seq)      # surfaces without a file system: show-titles has no title to show
            if i['exit'] != 0 and not has_mmb:     # show-titles exits 1 for unformatted MMB slots (no title to show)
                ctx.violation('attach-failed', 'attaching/showing a valid sequence of images failed (exit %d)' % i['exit'], rp)
                break
            # drive -> title from stdout; drive -> description from --show-config (stderr)
            titles = {}
            for line in i['out'].decode('latin-1').split('\n'):
                m = re.match(r'^(\d+): (.*)$', line)
                if m:
                    titles[int(m.group(1))] = m.group(2)
            cfg = {}
            for line in i['err'].decode('latin-1').split('\n'):
                m = re.match(r'^Drive\s+(\d+): (occupied|empty)(.*)$', line)
                if m and m.group(2) == 'occupied':
                    cfg[int(m.group(1))] = m.group(3)
            # expected surfaces so far
            pi = c.meta['prefix']
            want = []
            for (k, o) in file_ops[:pi + 1]:
                if o[1] == 'mmb':
                    want += ['%s%d' % (o[2], sl) for sl in sorted(mmb_present)]
                else:
                    want += surfaces_of(o[1], o[2])
            inv = {}
            for d, t in titles.items():
                inv.setdefault(t, []).append(d)
            for t in want:
                if len(inv.get(t, [])) != 1:
                    ctx.violation('not-exactly-one-drive', 'surface %s is attached to drives %s (expected exactly one)' % (t, inv.get(t, [])), rp)
            if set(d for d in titles) - set(cfg):
                ctx.violation('show-config-mismatch', '--show-config does not list occupied drives %s' % sorted(set(titles) - set(cfg)), rp)
            for d, t in titles.items():
                frag = t[:-1] if t[-1] in 'ab' and not t[-1].isdigit() else t
                tagname = re.match(r'I[a-z]', t).group(0)
                if tagname + '.' not in cfg.get(d, ''):
                    ctx.violation('show-config-wrong-image', '--show-config reports drive %d as %r but it reads %s' % (d, cfg.get(d), t), rp)
            # monotone
            for t, d in prev.items():
                if inv.get(t) != [d]:
                    ctx.violation('moved-or-hidden', 'surface %s was on drive %d and is now on %s after attaching another image' % (t, d, inv.get(t)), rp)
            # policy-specific checks for the newly attached image
            k, o = file_ops[pi]
            newsurf = ['%s%d' % (o[2], sl) for sl in sorted(mmb_present)] if o[1] == 'mmb' else surfaces_of(o[1], o[2])
            newnums = [inv[t][0] for t in newsurf if len(inv.get(t, [])) == 1]
            old = set(prev_occ)
            if len(newnums) == len(newsurf):
                allslots = None
                if o[1] == 'mmb':
                    # 511 surfaces, most unformatted: take all numbers shown as this image by --show-config
                    allslots = sorted(d for d, desc in cfg.items() if (o[2] + '.mmb') in desc)
                if o[1] == 'mmb':
                    # slot k of an archive is its k-th surface, formatted or not
                    slots = sorted(mmb_present)
                    base = newnums[0] - (2 * slots[0] if pol_at[pi] == 'physical' else 0)
                    if pol_at[pi] == 'physical':
                        expd = [base + 2 * sl for sl in slots]
                    else:
                        occ2, e2, nn2 = set(old), [], 0
                        for _ in range(max(slots) + 1):
                            while nn2 in occ2:
                                nn2 += 1
                            e2.append(nn2)
                            occ2.add(nn2)
                        expd = [e2[sl] for sl in slots]
                    if newnums != expd:
                        ctx.violation('mmb-slot-numbering', '%s policy: slots %s of %s are on drives %s, expected %s (unformatted slots keep their numbers)' % (
                            pol_at[pi], slots, o[2], newnums, expd), rp)
                if o[1] in ('hfa', 'hfb'):
                    mine = sorted(d for d, desc in cfg.items() if (o[2] + '.hfe') in desc)
                    fside = 0 if o[1] == 'hfa' else 1
                    allslots = mine          # the generic numbering checks below look at both sides
                    if pol_at[pi] == 'physical':
                        okn = len(mine) == 2 and mine[0] % 4 < 2 and mine[1] == opposite(mine[0]) and not any(opposite(d) in old or d in old for d in mine)
                    else:
                        occ3, exp3, n3 = set(old), [], 0
                        for _ in range(2):
                            while n3 in occ3:
                                n3 += 1
                            exp3.append(n3)
                            occ3.add(n3)
                        okn = mine == exp3
                    if not okn or newnums != [mine[fside]]:
                        ctx.violation('blank-side-numbering', '%s policy: the two sides of %s (side %d formatted, the other blank) are shown on drives %s and the formatted side reads on drive %s; '
                                      'expected both sides to keep their numbers and the formatted side on the %s of them' % (pol_at[pi], o[2], fside, mine, newnums, 'first' if fside == 0 else 'second'), rp)
                if pol_at[pi] == 'physical' and o[1] == 'dsd' and len(newnums) == 2 and not (newnums[0] % 4 < 2 and newnums[1] == opposite(newnums[0])):
                    ctx.violation('physical-not-one-drive', 'physical policy: the two sides of %s are on drives %s, which are not the two sides of one physical drive' % (o[2], newnums), rp)
                if pol_at[pi] == 'physical':
                    seqn = allslots if allslots else newnums
                    if any(b - a != 2 for a, b in zip(seqn, seqn[1:])):
                        ctx.violation('physical-not-n-n+2', 'physical policy: surfaces of %s got drives %s (expected n, n+2, …)' % (o[2], seqn[:6]), rp)
                    for d in seqn:
                        if opposite(d) in old:
                            ctx.violation('physical-opposite', 'physical policy: %s took drive %d, the opposite side of drive %d which another image occupies' % (o[2], d, opposite(d)), rp)
                else:
                    seqn = allslots if allslots else newnums
                    occupied = set(old)
                    exp = []
                    nn = 0
                    for _ in seqn:
                        while nn in occupied:
                            nn += 1
                        exp.append(nn)
                        occupied.add(nn)
                    if seqn != exp:
                        ctx.violation('first-not-lowest', 'first policy: surfaces of %s got drives %s, lowest free numbers are %s' % (o[2], seqn[:6], exp[:6]), rp)
            prev = {t: inv[t][0] for t in want if len(inv.get(t, [])) == 1}
            prev_occ = set(cfg)
            if c.meta['last']:
                # address each occupied drive with cat / type / --drive
                for d, t in sorted(titles.items())[:8]:
                    followups.append(vlib.Case('f%d' % si, c.files, [a.decode('latin-1') if isinstance(a, bytes) else a for a in c.argv[:-2]] +
                                               (['type', ':%d.$.ID' % d] if d % 2 == 0 else ['--drive', str(d), 'type', 'ID']),
                                               meta={'want': t, 'drive': d, 'si': si}))
    if followups:
        vlib.run_cases(followups, impl['dfs'], timeout=60)
        for c in followups:
            common.compare_model(ctx, c, 'e2e-type-by-drive')
            ctx.oracle_cases += 1
            ctx.case(('follow', c.meta['si'], c.meta['drive']), True)
            if common.crash_violation(ctx, c):
                continue
            if c.impl['exit'] != 0 or c.impl['out'] != c.meta['want'].encode() + b'\n':
                ctx.violation('reads-wrong-surface', 'a command addressed to drive %d read %r, the surface attached there is %s' % (
                    c.meta['drive'], c.impl['out'][:40], c.meta['want']), common.replay_of(c))


def replay(ctx, rp):
    print(rp.get('what'))
