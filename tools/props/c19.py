"""C19 — behaviour does not depend on whether assertions are compiled in."""
import glob
import gzip
import os

import vlib
from gen import discs, basicprog
from props import common, basic_common as bc

LEAN_MODULE = 'Beeb.Props.C19'
LEAVES = []
RULE = ('the inputs of C01-C03 (generated discs and programs, all commands) plus hostile/mutated images and programs and the repository test images, run through two '
        'builds of both tools made from the current tree: assertions on (ASan+UBSan) and -DNDEBUG (ASan+UBSan); stdout and exit status must agree whenever the '
        'assertion build does not stop on a failed assertion; bbcbasic_to_text additionally without any --dialect option. Non-trivial = both builds produced output.')
ASSUMPTIONS = ['the assert-purity verdicts are the translator\'s (syntactic: assignment, ++/--, new/delete, calls outside a list of known accessors)']


def assertion_stop(impl):
    return impl['exit'] in (-6, 134) and (b'Assertion' in impl['err'] or b'assert' in impl['err'])


def run(ctx):
    r = ctx.rng
    dbg = ctx.build('asan')
    ndb = ctx.build('asan-ndebug')
    dfs_cases = []
    n = 12 if ctx.tier == 'quick' else 150
    cmds = [['cat'], ['info', '*.*'], ['free'], ['space'], ['sector-map'], ['show-titles'], ['dump-sector', '0', '1', '1']]
    for k in range(n):
        d = discs.gen_disc(r, max_files=r.choice([3, 10, None]))
        img = d.encode(discs.filler(r))
        name = 'd%d' % k + d.extension()
        variants = [(name, img, 'valid')]
        b = bytearray(img)
        for _ in range(r.range(1, 8)):
            b[r.below(min(len(b), 4608))] = r.below(256)
        variants.append(('h' + name, bytes(b), 'hostile'))
        for (nm, im, kind) in variants:
            for cmd in cmds:
                dfs_cases.append((nm, im, ['--file', '@' + nm] + cmd, kind))
            for (label, origin, vlen, f) in d.all_files()[:2]:
                dfs_cases.append((nm, im, ['--file', '@' + nm, 'type', '--binary', common.fsp(label, f)], kind))
            dfs_cases.append((nm, im, ['--file', '@' + nm, 'extract-files', '@out'], kind))
    for p in sorted(glob.glob(os.path.join(vlib.REPO, 'dfs', 'testdata', '*'))):
        if p.endswith(('.ssd', '.ssd.gz', '.dsd', '.sdd.gz', '.hfe.gz', '.mfm.gz')):
            for cmd in cmds:
                dfs_cases.append((os.path.basename(p), open(p, 'rb').read(), ['--file', '@' + os.path.basename(p)] + cmd, 'testdata'))
    # inputs that reach the rarely-run code: multi-member .gz, flux images (clean, with an ID field that names another cylinder or head,
    # with a record of another size, damaged), images that fail to load
    import gzip as _gz
    from gen import flux
    d = discs.gen_disc(r, variant='dfs', geom=(40, 10), max_files=4)
    img = d.encode(lambda n: bytes(n))
    last = ['dump-sector', '0', '39', '9']
    half = len(img) // 2
    dfs_cases += [('mm.ssd.gz', _gz.compress(img[:half]) + _gz.compress(img[half:]), ['--file', '@mm.ssd.gz'] + cmd, 'multi-member-gz') for cmd in cmds + [last]]
    for (label, origin, vlen, f) in d.all_files():
        dfs_cases.append(('mm.ssd.gz', _gz.compress(img[:1000]) + _gz.compress(img[1000:]), ['--file', '@mm.ssd.gz', 'type', '--binary', common.fsp(label, f)], 'multi-member-gz'))
    for (fk, mfm, mode) in (('clean', False, None), ('clean', True, None), ('wrong-cylinder', False, 'cyl'), ('wrong-head', True, 'head'), ('odd-size', False, 'size'), ('wrong-cylinder', True, 'cyl')):
        spt = 18 if mfm else 10
        dd = discs.gen_disc(r, variant='dfs', geom=(40, spt), max_files=3)
        im = dd.encode(lambda n: bytes(n))
        trs = []
        for t in range(40):
            secs = {rec: im[(t * spt + rec) * 256:(t * spt + rec + 1) * 256] for rec in range(spt)}
            cyl, head = t, 0
            if t == 39 and mode == 'cyl':
                cyl = 40
            if t == 38 and mode == 'head':
                head = 1
            if t == 37 and mode == 'size':
                secs[spt - 1] = secs[spt - 1] * 2
            lay = flux.TrackLayout(mfm=mfm)
            trs.append([flux.mfm_track(cyl, head, secs, lay) if mfm else flux.fm_track(cyl, head, secs, lay)])
        for (cname, cimg) in ((('x.mfm', flux.hxcmfm_image(trs, 1)),) if mfm else ()) + (('x.hfe', flux.hfe_image(trs, 1, not mfm)),):
            for cmd in [['cat'], ['info', '*.*'], ['free'], last if not mfm else ['dump-sector', '0', '39', '17']]:
                dfs_cases.append((cname, cimg, ['--file', '@' + cname] + cmd, 'flux-' + fk))
    # a two-sided flux image whose second side is unformatted, and one with an empty first track
    dd = discs.gen_disc(r, variant='dfs', geom=(40, 10), max_files=3)
    im = dd.encode(lambda n: bytes(n))
    trs2 = []
    for t in range(40):
        secs = {rec: im[(t * 10 + rec) * 256:(t * 10 + rec + 1) * 256] for rec in range(10)}
        trs2.append([flux.fm_track(t, 0, secs, flux.TrackLayout()), [0] * 40000])
    for cmd in (['cat'], ['info', '*.*'], ['free'], ['cat', '2'], ['show-titles'], ['dump-sector', '0', '1', '1'], ['dump-sector', '2', '0', '0']):
        dfs_cases.append(('b2.hfe', flux.hfe_image(trs2, 2, True), ['--file', '@b2.hfe'] + cmd, 'flux-blank-side'))
    blank_all = [[[0] * 40000] for _ in range(3)]
    dfs_cases.append(('b0.hfe', flux.hfe_image(blank_all, 1, True), ['--file', '@b0.hfe', 'cat'], 'flux-blank-side'))
    # arguments that are not what the command expects (numbers that are not numbers, out of range, empty), on a valid image
    odd = ['x', '', '-1', '1x', '99999999999999999999', '0x10', ' 1', '+', '4294967296', 'A']
    for a_ in odd:
        for shape in (['dump-sector', a_, '0', '0'], ['dump-sector', '0', a_, '0'], ['dump-sector', '0', '0', a_], ['cat', a_], ['free', a_], ['space', a_],
                      ['sector-map', a_], ['show-titles', a_], ['type', a_], ['info', a_], ['--drive', a_, 'cat'], ['--dir', a_, 'cat'], ['--ui', a_, 'cat']):
            argv = (shape[:2] + ['--file', '@odd.ssd'] + shape[2:]) if shape[0].startswith('--') else (['--file', '@odd.ssd'] + shape)
            dfs_cases.append(('odd.ssd', img, argv, 'odd-argument'))
    tbls = bc.tables(dbg)
    basic_cases = []
    for name in bc.DIALECT_NAMES + [None, 'PDP11', 'PDP11', 'ARM', 'Mac']:
        for k in range(6 if ctx.tier == 'quick' else 80):
            lines, tbl, be = bc.gen_for(r, tbls, name or '6502', max_lines=6)
            data = basicprog.encode(lines, be)
            if r.chance(1, 3):
                b = bytearray(data)
                b[r.below(len(b))] = r.below(256)
                data = bytes(b)
            opts = (['--dialect', name] if name else []) + (['--listo', str(r.below(8))] if r.chance(1, 2) else [])
            basic_cases.append(({'p.bbc': data}, opts + ['@p.bbc'], 'basic-%s' % (name or 'default')))

    def mk():
        cs = []
        for (nm, im, argv, kind) in dfs_cases:
            cs.append(vlib.Case(nm, {nm: im}, argv, dest='out' if 'extract-files' in argv else None, meta={'kind': kind, 'tool': 'dfs'}))
        for (files, argv, kind) in basic_cases:
            cs.append(vlib.Case(kind, files, argv, tool='basic', meta={'kind': kind, 'tool': 'basic'}))
        return cs
    a = mk()
    b = mk()
    for c in b:
        c.ndebug = True
    for c in a:
        c.ndebug = False
    vlib.run_cases(a, bc.bins(dbg))
    vlib.run_cases(b, bc.bins(ndb))
    for ca, cb in zip(a, b):
        ia, ib = ca.impl, cb.impl
        m = ca.meta
        ctx.count('kind.' + m['kind'].split('-')[0])
        if m['tool'] == 'dfs':
            common.compare_model(ctx, ca, 'e2e-debug-build', compare_err=False)
            common.compare_model(ctx, cb, 'e2e-ndebug-build', compare_err=False)
        ctx.oracle_cases += 1
        ctx.case((ca.tag, tuple(ca.real_argv[-3:]), tuple(sorted(ca.files.items()))[:1]), bool(ia['out']) and bool(ib['out']),
                 sample={'argv': [x.decode('latin-1') for x in ca.real_argv][:6], 'debug_exit': ia['exit'], 'ndebug_exit': ib['exit']})
        if assertion_stop(ia):
            ctx.count('assertion-stop')
            continue
        if vlib.crashed(ia['exit'], ia['err']) or vlib.crashed(ib['exit'], ib['err']):
            if vlib.crashed(ia['exit'], ia['err']) != vlib.crashed(ib['exit'], ib['err']):
                ctx.violation('crash-in-one-build', 'one build crashes and the other does not (assertions-on exit %d, NDEBUG exit %d): %s' % (
                    ia['exit'], ib['exit'], common.first_error_line(ib['err'] if vlib.crashed(ib['exit'], ib['err']) else ia['err'])), common.replay_of(cb))
            continue
        fa = {k.split(b'/')[-1]: v for k, v in ia['files'].items()}
        fb = {k.split(b'/')[-1]: v for k, v in ib['files'].items()}
        if ia['out'] != ib['out'] or ia['exit'] != ib['exit'] or fa != fb:
            ctx.violation('build-dependent:' + m['kind'].split('-')[0], 'assertions-on and NDEBUG builds differ (%s): exit %d vs %d, stdout %s' % (
                m['kind'], ia['exit'], ib['exit'], 'equal' if ia['out'] == ib['out'] else 'differs'), common.replay_of(cb))


def replay(ctx, rp):
    print(rp.get('what'))
