"""C11 — exit status 0 implies the output was completely written."""
import concurrent.futures as cf
import os
import resource
import shutil
import signal
import subprocess
import tempfile

import vlib
from gen import discs, basicprog
from props import common, basic_common as bc

LEAN_MODULE = 'Beeb.Props.C11'
LEAVES = []
RULE = ('every command of both tools on generated inputs; the unlimited run gives the output length L; then stdout is a regular file under RLIMIT_FSIZE = k '
        '(SIGXFSZ ignored) for every k in 0..L for small outputs and every buffer boundary +-2 plus a sample otherwise, plus /dev/full and a pipe whose reader has '
        'gone; extract-files / extract-unused run with the size limit applied to the files they create. Expected: k < L => non-zero exit and a diagnostic; k >= L => '
        'same status as the unlimited run. Non-trivial = a fault actually fired (k < L). The stream model of the theorem is instantiated with the same (k, L).')
ASSUMPTIONS = ['the kernel refuses writes beyond RLIMIT_FSIZE with EFBIG and to /dev/full with ENOSPC; a pipe without reader gives EPIPE (SIGPIPE ignored)',
               'stdio / iostream buffering is represented by the sticky-stream model (Beeb/Model/Stream.lean); validated only by these runs']


def limited(limit):
    def f():
        signal.signal(signal.SIGXFSZ, signal.SIG_IGN)
        if limit is not None:
            resource.setrlimit(resource.RLIMIT_FSIZE, (limit, limit))
    return f


def run_one(argv, mode, k, cwd, stdin=b''):
    """mode: 'file' (stdout to a file, limit k), 'full' (/dev/full), 'pipe' (closed pipe), 'files' (stdout /dev/null, created files limited to k)"""
    env = dict(os.environ)
    env['ASAN_OPTIONS'] = 'detect_leaks=0'
    errf = subprocess.PIPE      # a pipe: RLIMIT_FSIZE must not apply to stderr
    try:
        if mode == 'file':
            outp = os.path.join(cwd, 'stdout.%d' % k)
            with open(outp, 'wb') as out:
                p = subprocess.run(argv, stdout=out, stderr=errf, input=stdin, cwd=cwd, env=env, preexec_fn=limited(k), timeout=30)
            written = os.path.getsize(outp)
            os.unlink(outp)
        elif mode == 'full':
            with open('/dev/full', 'wb') as out:
                p = subprocess.run(argv, stdout=out, stderr=errf, input=stdin, cwd=cwd, env=env, preexec_fn=limited(None), timeout=30)
            written = 0
        elif mode == 'pipe':
            # The reader-less pipe is made *in the child* (after fork): a pipe made in this multi-threaded parent could be
            # held open for a moment by another thread's freshly forked child (before its exec closes the descriptor), and
            # the write would then succeed - a race that showed up as a false alarm under load.
            def pre():
                signal.signal(signal.SIGPIPE, signal.SIG_IGN)
                r, w = os.pipe()
                os.close(r)
                os.dup2(w, 1)
                os.close(w)
            p = subprocess.run(argv, stderr=errf, input=stdin, cwd=cwd, env=env, preexec_fn=pre, timeout=30)
            written = 0
        else:
            with open('/dev/null', 'wb') as out:
                p = subprocess.run(argv, stdout=out, stderr=errf, input=stdin, cwd=cwd, env=env, preexec_fn=limited(k), timeout=30)
            written = 0
        return p.returncode, p.stderr, written
    finally:
        pass


def offsets(L, r, tier):
    if L <= (200 if tier == 'quick' else 3000):
        return list(range(0, L + 1))
    ks = {0, 1, 2, L - 2, L - 1, L, L + 1}
    for b in range(4096, L + 4096, 4096):
        ks.update([b - 2, b - 1, b, b + 1, b + 2])
    for b in (1024, 8191, 8192, 8193, 65536):
        ks.update([b - 1, b, b + 1])
    for _ in range(12 if tier == 'quick' else 120):
        ks.add(r.below(L))
    return sorted(k for k in ks if 0 <= k <= L + 1)


def run(ctx):
    r = ctx.rng
    impl = ctx.build('asan')
    tmp = tempfile.mkdtemp(prefix='beebverif-c11-')
    jobs = []
    try:
        # ---- dfs commands on a disc with text, big and small files
        used = set()
        files = [discs.AbsFile(0x24, b'TEXT', False, 0x1900, 0x8023, 2, (b'Line of text\r' * 40)),
                 discs.AbsFile(0x24, b'BIG', False, 0, 0, 5, r.bytes(20000)),
                 discs.AbsFile(0x41, b'SMALL', True, 0, 0, 100, b'x' * 10)]
        files.sort(key=lambda f: -f.start)
        d = discs.AbsDisc('dfs', 80, 10)
        d.cats = [discs.AbsCat(b'FAULTS', 3, 2, 800, files)]
        img = os.path.join(tmp, 'f.ssd')
        open(img, 'wb').write(d.encode(lambda n: bytes(n)))
        dfs_cmds = [['cat'], ['info', '*.*'], ['free'], ['space'], ['sector-map'], ['show-titles'], ['help'], ['dump-sector', '0', '0', '0'],
                    ['type', 'TEXT'], ['type', '--binary', 'BIG'], ['type', 'BIG'], ['list', 'BIG'], ['list', 'TEXT'], ['dump', 'TEXT'], ['dump', 'BIG'], ['--ui', 'watford', 'cat']]
        for cmd in dfs_cmds:
            jobs.append(('dfs', [impl['dfs'], '--file', img] + cmd, b'', 'stdout'))
        jobs.append(('dfs', [impl['dfs'], '--file', img, 'extract-files', 'OUT'], b'', 'files'))
        jobs.append(('dfs', [impl['dfs'], '--file', img, 'extract-unused', 'OUT'], b'', 'files'))
        # ---- bbcbasic_to_text
        tbls = bc.tables(impl)
        for name in ('6502', 'Z80', 'ARM'):
            lines, tbl, be = bc.gen_for(r, tbls, name, max_lines=r.choice([3, 12]))
            data = basicprog.encode(lines, be)
            p = os.path.join(tmp, 'p_%s.bbc' % name)
            open(p, 'wb').write(data)
            jobs.append(('basic', [impl['basic'], '--dialect', name, p], b'', 'stdout'))
            jobs.append(('basic', [impl['basic'], '--dialect', name, '-'], data, 'stdout'))
            jobs.append(('basic', [impl['basic'], '--dialect', name, p, p], b'', 'stdout'))
            # input files that produce no output at all, before / after one that does
            e = os.path.join(tmp, 'empty_%s.bbc' % name)
            open(e, 'wb').write(b'\x0D\xFF' if be else b'\x00\xFF\xFF')
            z = os.path.join(tmp, 'zero_%s.bbc' % name)
            open(z, 'wb').write(b'')
            jobs.append(('basic', [impl['basic'], '--dialect', name, p, e], b'', 'stdout'))
            jobs.append(('basic', [impl['basic'], '--dialect', name, e, p, z], b'', 'stdout'))
            jobs.append(('basic', [impl['basic'], '--dialect', name, p, '-'], b'', 'stdout'))
            # runs whose last act is a warning on stderr (bytes after the end marker), alone and after another file
            w = os.path.join(tmp, 'junk_%s.bbc' % name)
            open(w, 'wb').write(data + b'\x01\x02junk')
            jobs.append(('basic', [impl['basic'], '--dialect', name, w], b'', 'stdout'))
            jobs.append(('basic', [impl['basic'], '--dialect', name, p, w], b'', 'stdout'))
        # listings whose length sits on and around the stdio buffer size: the byte that fills the buffer may be written by any of the
        # output calls (line number, token text, the newline)
        def exact_listing(total):
            out = bytearray()
            listing = 0
            n = 10
            while total - listing > 0:
                remain = total - listing
                body_len = min(200, remain - 6)
                if remain - 6 - body_len in range(1, 7):
                    body_len -= 8
                out += bytes([0x0D, n >> 8, n & 255, body_len + 4]) + b'A' * body_len
                listing += 5 + body_len + 1
                n += 10
            return bytes(out) + b'\x0D\xFF'
        for total in (4095, 4096, 4097, 4098, 8192, 8193, 12289):
            pth = os.path.join(tmp, 'exact_%d.bbc' % total)
            open(pth, 'wb').write(exact_listing(total))
            jobs.append(('basic', [impl['basic'], '--dialect', '6502', '--listo', '0', pth], b'', 'stdout'))
        jobs.append(('basic', [impl['basic'], '--help'], b'', 'stdout'))
        jobs.append(('basic', [impl['basic'], '--dialect=help', os.path.join(tmp, 'p_6502.bbc')], b'', 'stdout'))
        jobs.append(('basic', [impl['basic'], '-D', '-'], b'', 'stdout'))
        runs = []
        for (tool, argv, stdin, kind) in jobs:
            cwd = tempfile.mkdtemp(dir=tmp)
            if kind == 'stdout':
                rc0, err0, L = run_one(argv, 'file', 1 << 40, cwd, stdin)
                for k in offsets(L, r, ctx.tier):
                    runs.append((tool, argv, stdin, 'file', k, L, rc0, cwd))
                runs.append((tool, argv, stdin, 'full', 0, L, rc0, cwd))
                runs.append((tool, argv, stdin, 'pipe', 0, L, rc0, cwd))
            else:
                os.makedirs(os.path.join(cwd, 'OUT'))
                rc0, err0, _ = run_one(argv, 'files', 1 << 40, cwd, stdin)
                sizes = sorted(os.path.getsize(os.path.join(cwd, 'OUT', f)) for f in os.listdir(os.path.join(cwd, 'OUT')))
                L = max(sizes) if sizes else 0
                ks = sorted(set([0, 1] + [s + dlt for s in sizes for dlt in (-1, 0)] + [4095, 4096, 8192, L - 1, L]))
                for k in [k for k in ks if 0 <= k <= L]:
                    c2 = tempfile.mkdtemp(dir=tmp)
                    os.makedirs(os.path.join(c2, 'OUT'))
                    runs.append((tool, argv, stdin, 'files', k, L, rc0, c2))

        def go(x):
            tool, argv, stdin, mode, k, L, rc0, cwd = x
            rc, err, written = run_one(argv, mode, k, cwd, stdin)
            return x, rc, err, written
        with cf.ThreadPoolExecutor(max_workers=16) as ex:
            results = list(ex.map(go, runs))
        fired = 0
        for (x, rc, err, written) in results:
            tool, argv, stdin, mode, k, L, rc0, cwd = x
            cmd = ' '.join(a if isinstance(a, str) else a.decode('latin-1') for a in argv[1:] if not str(a).startswith(tmp))
            fault = (mode in ('full', 'pipe') and L > 0) or (mode in ('file', 'files') and k < L)
            ctx.oracle_cases += 1
            ctx.count('mode.' + mode)
            ctx.count('tool.' + tool)
            ctx.case((tool, cmd, mode, k), fault, sample={'tool': tool, 'cmd': cmd, 'mode': mode, 'limit': k, 'output_length': L, 'exit': rc})
            rp = {'argv': [str(a) for a in argv], 'mode': mode, 'limit': k, 'full_output_length': L, 'exit': rc, 'stderr': err[-300:].decode('latin-1'), 'stdin_hex': stdin.hex()[:2000]}
            if rc < 0 or rc in (98, 99, 134, 139):
                ctx.violation('crash-on-write-failure', '%s %s: ended by signal/abort (rc %d) when output failed at byte %d' % (tool, cmd, rc, k), rp)
                continue
            if fault:
                fired += 1
                if rc == 0:
                    ctx.violation('exit0-after-failed-write:%s' % (argv[3] if tool == 'dfs' and len(argv) > 3 and mode != 'files' else tool + ('-files' if mode == 'files' else '')),
                                  '%s %s exits 0 although %s refused writes at byte %d of %d' % (tool, cmd, {'file': 'the output file', 'full': '/dev/full', 'pipe': 'the pipe', 'files': 'a created file'}[mode], k, L), rp)
                elif not err:
                    ctx.violation('silent-write-failure:%s' % (argv[3] if tool == 'dfs' and len(argv) > 3 and mode != 'files' else tool),
                                  '%s %s exits %d without a diagnostic when output failed at byte %d of %d' % (tool, cmd, rc, k, L), rp)
            elif rc != rc0:
                ctx.violation('false-alarm', '%s %s: exit %d with room for the whole output (limit %d, length %d); unlimited run exits %d' % (tool, cmd, rc, k, L, rc0), rp)
        ctx.count('faults-fired', fired)
        ctx.notes.append('faults fired: %d of %d runs' % (fired, len(results)))
        ctx.traces = 0
    finally:
        shutil.rmtree(tmp, ignore_errors=True)


def replay(ctx, rp):
    print(rp.get('what'))
