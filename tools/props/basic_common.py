"""Helpers shared by the bbcbasic_to_text checks."""
import subprocess

import vlib
from gen import basicprog
from props import common

DIALECT_NAMES = ['6502', '32000', 'PDP11', 'Z80', '8086', 'ARM', 'Windows', 'SDL', 'MacOSX', 'Mac']


def tables(impl):
    p = subprocess.run([impl['basic'], '-D', '-'], capture_output=True)
    return basicprog.parse_token_dump(p.stdout.decode('latin-1'))


def bins(impl):
    return {'basic': impl['basic'], 'dfs': impl['dfs']}


def compare(ctx, c, stream):
    return common.compare_model(ctx, c, stream, compare_files=False)


def gen_for(r, tbls, name, **kw):
    idx, be, canon = basicprog.DIALECTS[name]
    tbl = tbls[canon]
    return basicprog.gen_program(r, tbl, be, pdp=(canon == 'PDP11'), **kw), tbl, be
