"""C05 — HFE and HxC-MFM flux images yield the same sectors as the equivalent sector dump."""
import os
import struct
import tempfile

import vlib
from gen import discs, flux
from props import common

LEAN_MODULE = 'Beeb.Props.C05'
LEAN_MODULES = ['Beeb.Props.C05', 'Beeb.Props.C05b', 'Beeb.Props.C05c']
LEAVES = ['crc_cycle', 'fileview_pos', 'fileview_unformatted', 'fileview_beyond',
          'reverse_bit_order', 'pictrack_len', 'is_hfe3_opcode', 'hfe_le_word', 'hxc_le_word', 'hxc_le_quad', 'bitstream_raw_pos']
RULE = ('abstract discs (as C01; 10/16/18 sectors per track; 35/40/80 tracks; one or two sides) recorded as FM or MFM tracks with random legal gap/sync lengths, '
        'fill bytes and physical sector order, wrapped as HFE v1, HFE v3 (random NOP/SETINDEX/SETBITRATE/SKIPBITS placement, in-block and straddling) and HxC MFM, '
        'last track padded or not; (1) Python and Lean spec encoders compared byte for byte (tracks, v3 item streams, containers); (2) real track decoders (in-process) '
        'vs the Lean decoders on the encoded tracks; (3) every dfs command on the flux image vs the same command on the sector dump of the same disc (oracle) and '
        'vs the Lean model of dfs (correspondence). Non-trivial = a command that reads catalogue or file sectors through a flux image.')
ASSUMPTIONS = ['discs are generated with the catalogue sector count of a disc formatted with their geometry (a sector dump records the track count nowhere else; dfs derives it from that count)',
               'the track formats (IBM 3740 FM, System 34 MFM) and container layouts (HxC HFE rev 1.1 / v3, HxC MFM) are as written in Beeb/Spec/FluxEnc.lean and tools/gen/flux.py',
               'for 16-sector tracks the sector dump is not used as reference (open C04 finding); the Lean model is']

CMDS = [['cat'], ['info', '*.*'], ['free'], ['space'], ['sector-map'], ['show-titles'], ['extract-files', '@out']]


def rand_layout(r, mfm, nsec):
    order = list(range(nsec))
    k = r.below(4)
    if k == 1:
        order = r.shuffle(order)
    elif k == 2:      # interleave 2:1
        order = order[0::2] + order[1::2]
    elif k == 3:      # skew
        s = r.below(nsec)
        order = order[s:] + order[:s]
    return flux.TrackLayout(gap1=r.choice([0, 1, 16, 40]) if not mfm else r.choice([1, 16, 80]),
                            sync=r.choice([2, 3, 6, 12]), gap2=r.choice([1, 11, 22, 40]) if not mfm else r.choice([1, 22, 40]),
                            gap3=r.choice([1, 10, 21, 54]), gap4=r.choice([1, 2, 3, 16, 40, 200]),
                            fill=0xFF if not mfm else r.choice([0x4E, 0x4E, 0x00, 0xFF]) , order=order, mfm=mfm)


def lay_args(lay):
    return '%d %d %d %d %d %d' % (lay.gap1, lay.sync, lay.gap2, lay.gap3, lay.gap4, lay.fill)


def blob(b):
    return struct.pack('<I', len(b)) + bytes(b)


def run(ctx):
    r = ctx.rng
    quick = ctx.tier == 'quick'
    tmp = tempfile.mkdtemp(prefix='beebverif-c05-')
    try:
        run_streams(ctx, r, quick, tmp)
        run_e2e(ctx, r, quick)
    finally:
        import shutil
        shutil.rmtree(tmp, ignore_errors=True)


def run_streams(ctx, r, quick, tmp):
    # ---- (1) spec encoders: Python vs Lean; (2) decoders: real vs Lean, on the encoded tracks
    enc_reqs, enc_want = [], []
    dec_reqs, dec_meta = [], []
    for k in range(30 if quick else 400):
        mfm = r.chance(1, 2)
        nsec = r.choice([10, 10, 1, 5]) if not mfm else r.choice([18, 16, 18, 3])
        lay = rand_layout(r, mfm, nsec)
        cyl, head = r.choice([0, 1, 39, 79, 255, r.below(256)]), r.below(2)
        secs = {rec: r.bytes(256) if r.chance(3, 4) else bytes([r.below(256)]) * 256 for rec in range(nsec)}
        cells = flux.mfm_track(cyl, head, secs, lay) if mfm else flux.fm_track(cyl, head, secs, lay)
        enc_reqs.append('trackenc %s %d %d %s %s' % ('mfm' if mfm else 'fm', cyl, head, lay_args(lay),
                                                    ','.join('%d:%s' % (rec, secs[rec].hex()) for rec in lay.order) or '-'))
        enc_want.append('%d %s' % (len(cells), flux.pack_lsb(cells).hex() or '-'))
        ctx.count('track.%s' % ('mfm' if mfm else 'fm'))
        # the decoders see the track through the container's bit order: HFE (FM at double rate, first=1 stride=2) or plain
        if mfm:
            data, first, stride = flux.pack_lsb(cells), 0, 1
        else:
            data, first, stride = flux.pack_lsb(flux.hfe_side_bits(cells, True)), 1, 2
        dec_reqs.append('trackdec %s %d %d %s' % ('mfm' if mfm else 'fm', first, stride, data.hex() or '-'))
        dec_meta.append((cyl, head, lay.order, secs))

    def cmp_enc(rq, il, ml, want=iter(enc_want)):
        w = next(want)
        ctx.case(rq[:200], True)
        if ml != w:
            ctx.disagree('spec-encoders', 'Lean track encoder differs from the Python one: %s' % rq[:80], {'request': rq[:4000], 'lean': ml[:2000], 'python': w[:2000]})
    # the spec stream has no implementation side: compare the Lean line with the Python rendering
    mb, mrc, merr = vlib.run_lines(vlib.driver_path(), enc_reqs)
    if mrc != 0 or len(mb) != len(enc_reqs):
        ctx.proof_break('model driver failed on stream trackenc', merr)
    else:
        for rq, ml in zip(enc_reqs, mb):
            cmp_enc(rq, None, ml)
    ctx.streams.append({'stream': 'trackenc', 'requests': len(enc_reqs)})

    metas = iter(dec_meta)

    def cmp_dec(rq, il, ml):
        cyl, head, order, secs = next(metas)
        ctx.traces += 1
        ctx.case(rq[:200], True, sample={'op': rq[:40], 'sectors': len(order)})
        if il != ml:
            ctx.disagree('trackdec', 'real decoder and Lean decoder differ on an encoded track', {'request': rq[:100000], 'impl': il[:3000], 'model': ml[:3000]})
        ctx.oracle_cases += 1
        want = '%d:' % len(order) + ''.join('%d.%d.%d.' % (cyl, head, rec) for rec in order)
        got = parse_secs(il)
        exp = [(cyl, head, rec, secs[rec]) for rec in order]
        if got is None or [(g[0], g[1], g[2], g[5]) for g in got] != exp:
            ctx.violation('track-roundtrip:%s' % rq.split()[1], 'decoding a recorded %s track does not give back its sectors (%d recorded, got %s)' % (
                rq.split()[1], len(order), 'malformed' if got is None else [(g[0], g[1], g[2]) for g in got][:20]), {'request': rq[:200000], 'impl': il[:3000]})
    ctx.pair('trackdec', dec_reqs, cmp_dec)

    # ---- v3 item streams
    reqs, wants = [], []
    for k in range(40 if quick else 500):
        nbits = 8 * r.range(1, 400)
        bits = [r.below(2) if r.chance(1, 2) else 0 for _ in range(nbits)]
        # cell bytes that look like opcodes cannot be stored in a v3 stream: avoid four 1-cells in a row
        for i in range(3, nbits):
            if bits[i] and bits[i - 1] and bits[i - 2] and bits[i - 3]:
                bits[i] = 0
        items = flux.v3_items(bits, r.fork(), r.choice([2, 5, 20]), straddle=r.chance(1, 2))
        stored = flux.v3_bytes(items)
        total = sum(8 if it[0] == 'c' else 8 - it[1] for it in items if it[0] in 'cs')
        cells = (bits + [0] * total)[:total]
        reqs.append('v3items ' + flux.v3_items_text(items))
        full = total - total % 8
        wants.append((stored.hex() or '-', total, flux.pack_lsb(cells).hex() or '-', flux.pack_lsb(cells[:full]).hex() or '-', total % 8))
    mb, mrc, merr = vlib.run_lines(vlib.driver_path(), reqs)
    ctx.streams.append({'stream': 'v3items', 'requests': len(reqs)})
    if mrc != 0 or len(mb) != len(reqs):
        ctx.proof_break('model driver failed on stream v3items', merr)
    else:
        for rq, ml, w in zip(reqs, mb, wants):
            ctx.case(rq[:200], True)
            parts = ml.split()
            ok = len(parts) == 6 and parts[0] == w[0] and int(parts[1]) == w[1] and parts[2] == w[2] and parts[3] == w[3] and int(parts[4]) == w[4] and parts[5] == '0'
            if not ok:
                ctx.disagree('spec-encoders', 'HFEv3 item stream: Lean spec/decoder and Python disagree', {'request': rq[:3000], 'lean': ml[:3000], 'python': [str(x)[:1000] for x in w]})

    # ---- containers: Python vs Lean
    reqs, wants = [], []
    for k in range(6 if quick else 60):
        kind = ['hfe1fm', 'hfe1mfm', 'hxc'][k % 3]
        ntr = r.choice([1, 2, 3, 40]) if not quick else r.choice([1, 2, 3])
        sides = r.choice([1, 2])
        mfm = kind != 'hfe1fm'
        nsec = 10 if not mfm else 18
        trs = []
        for t in range(ntr):
            per = []
            for sd in range(sides):
                lay = rand_layout(r, mfm, nsec)
                secs = {rec: r.bytes(256) for rec in range(nsec)}
                per.append(flux.mfm_track(t, sd, secs, lay) if mfm else flux.fm_track(t, sd, secs, lay))
            trs.append(per)
        path = os.path.join(tmp, 'img%d.bin' % k)
        with open(path, 'wb') as f:
            if kind == 'hxc':
                for per in trs:
                    for cells in per:
                        f.write(blob(struct.pack('<I', len(cells)) + flux.pack_lsb(cells)))
                reqs.append('imgenc %s hxcenc %d' % (path, sides))
                wants.append(flux.hxcmfm_image(trs, sides))
            else:
                for per in trs:
                    for sd in range(2):
                        f.write(blob(flux.hfe_side_bytes(per[sd], not mfm) if sd < sides else b''))
                reqs.append('imgenc %s hfeenc 0 %d %d' % (path, 0 if mfm else 1, sides))
                wants.append(flux.hfe_image(trs, sides, not mfm))
    mb, mrc, merr = vlib.run_lines(vlib.driver_path(), reqs)
    ctx.streams.append({'stream': 'imgenc', 'requests': len(reqs)})
    if mrc != 0 or len(mb) != len(reqs):
        ctx.proof_break('model driver failed on stream imgenc', merr)
    else:
        for rq, ml, w in zip(reqs, mb, wants):
            ctx.case(rq, True)
            if ml != (w.hex() or '-'):
                n = next((i for i in range(min(len(ml) // 2, len(w))) if ml[2 * i:2 * i + 2] != '%02x' % w[i]), min(len(ml) // 2, len(w)))
                ctx.disagree('spec-encoders', 'container encoder: Lean and Python differ (%s; first difference at byte %d; lengths %d / %d)' % (rq.split()[2], n, len(ml) // 2, len(w)),
                             {'request': rq})


def parse_secs(line):
    try:
        n, rest = line.split(':', 1)
        out = []
        for it in rest.split(';'):
            if not it:
                continue
            c, h, rr, c1, c2, d = it.split('.')
            out.append((int(c), int(h), int(rr), int(c1), int(c2), b'' if d == '-' else bytes.fromhex(d)))
        if len(out) != int(n):
            return None
        return out
    except Exception:
        return None


def flux_variants(r, d, img_sides, quick, k=0, force_kind=None):
    """yield (name, bytes, description) flux recordings of a disc whose per-side sector dumps are img_sides"""
    tracks, spt, sides = d.tracks, d.spt, len(img_sides)
    mfm = spt != 10
    full = b''.join(img_sides)
    kinds = ['hfe1', 'hfe3'] + (['hxc'] if mfm else [])
    if quick:
        kinds = [force_kind or kinds[k % len(kinds)]]
    for kind in kinds:
        trs = flux.tracks_of_image(full, tracks, spt, sides, mfm, lay_for=lambda t, sd: rand_layout(r, mfm, spt))
        # container freedoms: HxC track data anywhere in the file, in any order, with padding between tracks; the HFE LUT records
        # either the bytes of track data or the 512-byte blocks they occupy; the last block padded or not
        exact = (k // 3) % 2 == 0
        if kind == 'hxc':
            yield 'x.mfm', flux.hxcmfm_image(trs, sides, gap_rng=r.fork(), shuffle=r.chance(1, 2)), kind
        elif kind == 'hfe1':
            yield 'x.hfe', flux.hfe_image(trs, sides, not mfm, pad_last=r.chance(3, 4), lut_exact=exact), kind
        else:
            yield 'y.hfe', flux.hfe_image(trs, sides, not mfm, v3=True, opcode_rng=r.fork(), opcode_density=r.choice([3, 30, 300]),
                                          straddle=r.chance(1, 2), lut_exact=exact), kind


def run_e2e(ctx, r, quick):
    impl = ctx.build('asan')
    cases = []
    QUICK = [((40, 10), 'hfe3', False), ((40, 18), 'hfe3', True), ((35, 18), 'hxc', False), ((40, 16), 'hfe1', True), ((35, 10), 'hfe1', True),
             ((40, 18), 'hxc', True), ((80, 10), 'hfe3', True), ((40, 18), 'hfe1', False)]
    ndiscs = len(QUICK) if quick else 60
    for k in range(ndiscs):
        two = QUICK[k][2] if quick else r.chance(1, 3)
        geom = r.choice([(40, 10), (80, 10), (35, 10), (40, 18), (80, 18), (40, 16)]) if not quick else QUICK[k][0]
        variant = r.choice(['dfs', 'wdfs']) if geom[1] != 18 else r.choice(['dfs', 'wdfs', 'opus'])
        # the catalogue's sector count is that of a disc formatted with this geometry: a sector dump carries no other record of the
        # track count (dfs guesses it from that count), whereas a flux image records it
        d = discs.gen_disc(r, variant=variant, geom=geom if variant != 'opus' else None, max_files=8,
                           total=(min(geom[0] * geom[1], 1023) if variant != 'opus' else None))
        if variant == 'opus':
            geom = (d.tracks, d.spt)
        sides_img = [d.encode(discs.filler(r))]
        if two:
            d2 = discs.gen_disc(r, variant='dfs', geom=geom, max_files=5, total=min(geom[0] * geom[1], 1023))
            sides_img.append(d2.encode(discs.filler(r)))
        # the reference sector dump
        if two:
            t = geom[1] * 256
            dump = b''.join(sides_img[0][tr * t:(tr + 1) * t] + sides_img[1][tr * t:(tr + 1) * t] for tr in range(geom[0]))
            dname = 'ref.ddd' if geom[1] != 10 else 'ref.dsd'
        else:
            dump = sides_img[0]
            dname = 'ref.sdd' if geom[1] != 10 else 'ref.ssd'
        files = d.all_files()
        cmds = list(CMDS)
        for (label, origin, vlen, f) in (files if not quick else r.shuffle(files)[:3]):
            cmds.append(['type', '--binary', common.fsp(label, f)])
            cmds.append(['dump', common.fsp(label, f)])
        if two:
            cmds += [['cat', '2'], ['info', ':2.*.*'], ['free', '2']]
        if variant == 'opus':
            cmds += [['--drive', '0%s' % l, 'cat'] for (l, o, n, c) in d.volumes()][:3]
        for (fname, fbytes, kind) in flux_variants(r, d, sides_img, quick, k, QUICK[k][1] if quick else None):
            for cmd in cmds:
                pre = [a for a in cmd if isinstance(a, str) and a.startswith('--drive')]
                if pre:
                    cmd2 = cmd[2:]
                    pre = cmd[:2]
                else:
                    cmd2 = cmd
                ref = vlib.Case('ref%d' % k, {dname: dump}, pre + ['--file', '@' + dname] + cmd2, dest='out' if '@out' in cmd2 else None, meta={'role': 'ref'})
                fx = vlib.Case('fx%d' % k, {fname: fbytes}, pre + ['--file', '@' + fname] + cmd2, dest='out' if '@out' in cmd2 else None,
                               meta={'role': 'flux', 'ref': ref, 'kind': kind, 'geom': geom, 'two': two, 'variant': variant, 'cmd': cmd2[0]})
                cases += [ref, fx]
    vlib.run_cases(cases, impl['dfs'], timeout=60)
    for c in cases:
        if c.meta['role'] != 'flux':
            continue
        m = c.meta
        ref = m['ref']
        common.compare_model(ctx, c, 'e2e-flux-' + m['kind'])
        ctx.oracle_cases += 1
        ctx.count('kind.' + m['kind'])
        ctx.count('spt.%d' % m['geom'][1])
        ctx.count('sides.%d' % (2 if m['two'] else 1))
        ctx.case((m['kind'], tuple(c.real_argv[-2:]), hash(bytes(c.files[next(iter(c.files))][:4096]))), True,
                 sample={'kind': m['kind'], 'geom': list(m['geom']), 'cmd': [a.decode('latin-1')[-30:] for a in c.real_argv[2:]], 'exit': c.impl['exit']})
        if common.crash_violation(ctx, c):
            continue
        if m['geom'][1] == 16:
            continue       # reference dump unusable (open C04 finding); the model comparison above stands
        i, ri = c.impl, ref.impl
        same = i['exit'] == ri['exit'] and i['out'] == ri['out'] and \
            {k.split(b'/')[-1]: v for k, v in i['files'].items()} == {k.split(b'/')[-1]: v for k, v in ri['files'].items()}
        if not same:
            ctx.violation('flux-vs-dump:%s:%s' % (m['kind'], m['cmd']),
                          '%s on the %s recording of a %s disc (%dx%d%s) differs from the sector dump: exit %d vs %d, stdout %d vs %d bytes' % (
                              m['cmd'], m['kind'], m['variant'], m['geom'][0], m['geom'][1], ', two-sided' if m['two'] else '', i['exit'], ri['exit'], len(i['out']), len(ri['out'])),
                          common.replay_of(c, {'reference_argv': [a.decode('latin-1') for a in ref.real_argv], 'reference_stdout': ri['out'].hex()[:2000],
                                               'reference_image': dump_hex(ref)}))


def dump_hex(ref):
    v = next(iter(ref.files.values()))
    return v.hex() if len(v) < 600000 else None


def replay(ctx, rp):
    r = rp.get('replay', rp)
    print(rp.get('what'))
    if 'argv' in r:
        print('replay: dfs %s' % ' '.join(r['argv']))
