"""C10 — gzip compression of an image file is transparent."""
import gzip
import zlib

import vlib
from gen import discs, flux
from props import common

LEAN_MODULE = 'Beeb.Props.C10'
LEAVES = []
RULE = ('images of every container (ssd sdd dsd ddd mmb hfe-v1 hfe-v3 mfm; valid discs of all three catalogue formats, sizes from 2 sectors up, lengths that are not multiples of '
        '256/512/1024, a full-size MMB) compressed at levels 0/1/6/9, with and without a stored file name, as one or two gzip members; every command on X and on X.gz must give '
        'identical stdout, exit status and extracted files (oracle), and both are compared with the Lean model. Rejection: every .gz truncated at a set of offsets covering '
        'header/body/trailer, single-bit corruptions, raw (uncompressed) images named .gz, empty files: Python\'s zlib decides whether the stream is acceptable; when it is not, '
        'dfs must exit non-zero with a diagnostic and empty stdout. Non-trivial = compressed or corrupted input.')
ASSUMPTIONS = ['Python\'s zlib (the same library) is the reference for "this .gz stream is valid and inflates to these bytes"',
               'the model takes the inflated bytes as given: zlib itself is outside the proof']

CMDS = [['cat'], ['info', '*.*'], ['free'], ['space'], ['sector-map'], ['show-titles'], ['dump-sector', '0', '0', '1'], ['extract-files', '@out'], ['extract-unused', '@out']]


def gz(data, level=6, name=None, members=1):
    import io
    if members > 1:
        cut = len(data) // members
        return gz(data[:cut], level, name) + gz(data[cut:], level, None, members - 1)
    buf = io.BytesIO()
    with gzip.GzipFile(filename=name or '', mode='wb', fileobj=buf, compresslevel=level, mtime=0) as f:
        f.write(data)
    return buf.getvalue()


def images(r, quick):
    out = []
    for variant, geom in (('dfs', (40, 10)), ('wdfs', (80, 10)), ('opus', None), ('dfs', (40, 18)), ('dfs', (80, 18))):
        d = discs.gen_disc(r, variant=variant, geom=geom, max_files=6)
        out.append(('a' + d.extension(), d.encode(discs.filler(r)), d))
    # an image that itself begins with the gzip magic number 1F 8B (a title made of VDU codes), uncompressed and compressed
    d = discs.gen_disc(r, variant='dfs', geom=(40, 10), max_files=3)
    d.cats[0].title = b'\x1f\x8b\x08MAGIC'
    out.append(('m.ssd', d.encode(lambda n: bytes(n)), d))
    # ".gz" elsewhere in the path, and a name whose hint matters (720 catalogued sectors in a .ssd: FM 80x10 with the hint, MFM 40x18 without)
    d = discs.gen_disc(r, variant='dfs', geom=(40, 18), max_files=3, total=720)
    out.append(('back.gz.d/game.ssd', d.encode(lambda n: bytes(n)), None))
    out.append(('n.gz.ssd', d.encode(lambda n: bytes(n)), None))
    # short images: a catalogue and little else; odd lengths
    d = discs.gen_disc(r, variant='dfs', geom=(40, 10), max_files=2, total=r.choice([5, 9, 33]))
    img = d.encode(lambda n: bytes(n))
    out.append(('s.ssd', img[:512], None))
    out.append(('t.ssd', img[:r.choice([513, 767, 1023, 1025, 2049, 4097])], None))
    out.append(('u.ssd', img[:256 * r.range(3, 40)], d))
    # interleaved two-sided
    d = discs.gen_disc(r, variant='dfs', geom=(40, 10), max_files=4)
    s0 = d.encode(lambda n: bytes(n))
    d2 = discs.gen_disc(r, variant='dfs', geom=(40, 10), max_files=4)
    s1 = d2.encode(lambda n: bytes(n))
    out.append(('b.dsd', b''.join(s0[t * 2560:(t + 1) * 2560] + s1[t * 2560:(t + 1) * 2560] for t in range(40)), d))
    d = discs.gen_disc(r, variant='dfs', geom=(40, 18), max_files=4)
    s0 = d.encode(lambda n: bytes(n))
    out.append(('b.ddd', b''.join(s0[t * 4608:(t + 1) * 4608] * 2 for t in range(40)), d))
    # MMB: small (index + 2 slots)
    idx = bytearray(8192)
    for sl in range(511):
        idx[16 * (sl + 1) + 15] = 0xF0
    idx[16 + 15] = 0x0F
    idx[32 + 15] = 0x00
    d = discs.gen_disc(r, variant='dfs', geom=(80, 10), max_files=5)
    out.append(('c.mmb', bytes(idx) + d.encode(lambda n: bytes(n)) * 2, d))
    # flux
    d = discs.gen_disc(r, variant='dfs', geom=(40, 10), max_files=4)
    trs = flux.tracks_of_image(d.encode(lambda n: bytes(n)), 40, 10, 1, False)
    out.append(('d.hfe', flux.hfe_image(trs, 1, True, pad_last=False), d))       # last block not padded: length not a multiple of 512
    out.append(('e.hfe', flux.hfe_image(trs, 1, True, v3=True, opcode_rng=r.fork(), opcode_density=50), d))
    d = discs.gen_disc(r, variant='dfs', geom=(40, 18), max_files=4)
    trs = flux.tracks_of_image(d.encode(lambda n: bytes(n)), 40, 18, 1, True)
    out.append(('f.mfm', flux.hxcmfm_image(trs, 1), d))
    return out


def full_mmb(r):
    """a full-size MMB (511 slots): sparse in the model, real zeros on disc; compresses to ~100 KiB"""
    idx = bytearray(8192)
    for sl in range(511):
        idx[16 * (sl + 1) + 15] = 0x0F if sl in (0, 510) else 0xF0
    d = discs.gen_disc(r, variant='dfs', geom=(80, 10), max_files=5)
    body = d.encode(lambda n: bytes(n))
    return bytes(idx) + body + bytes(200 * 1024 * 509) + body


def run(ctx):
    r = ctx.rng
    quick = ctx.tier == 'quick'
    impl = ctx.build('asan')
    cases = []
    imgs = images(r, quick)
    for (name, data, d) in imgs:
        cmds = list(CMDS)
        if d is not None:
            for (label, origin, vlen, f) in r.shuffle(d.all_files())[:2]:
                cmds.append(['type', '--binary', common.fsp(label, f)])
        if quick:
            cmds = [cmds[0]] + r.shuffle(cmds[1:])[:3]
        other = {'ssd': 'side.dsd', 'sdd': 'x.ssd', 'dsd': 'side.ssd', 'ddd': 'x.sdd', 'mmb': 'arc.ssd', 'hfe': 'flux.mfm', 'mfm': 'flux.hfe'}[name.rsplit('.', 1)[-1]]
        variants = [(r.choice([0, 1, 6, 9]), None, 1), (6, other, 1)] if quick else [(0, None, 1), (1, None, 1), (6, 'orig.img', 1), (9, None, 1), (6, other, 1), (1, 'noextension', 1)]
        for (level, stored_name, members) in variants:
            z = gz(data, level, stored_name, members)
            for cmd in cmds:
                dest = 'out' if '@out' in cmd else None
                ref = vlib.Case('ref', {name: data}, ['--file', '@' + name] + cmd, dest=dest, meta={'role': 'ref'})
                cz = vlib.Case('gz', {name + '.gz': z}, ['--file', '@' + name + '.gz'] + cmd, dest=dest,
                               meta={'role': 'gz', 'ref': ref, 'name': name, 'level': level, 'cmd': cmd[0], 'size': len(data)})
                cases += [ref, cz]
    # several members: the gzip format says the content is the concatenation (RFC 1952 2.2)
    (name, data, d) = imgs[0]
    multi = [(gz(data, 6, None, 2), 2, 'half'), (gz(data, 1, None, 3), 3, 'thirds')]
    # a stored (level 0) first member of n bytes occupies n + 23 bytes: put the member boundary on and around the 512-byte read buffer edges
    for edge in ([511, 512, 513] if quick else [510, 511, 512, 513, 514, 1023, 1024, 1025, 1535, 1536]):
        n = edge - 23
        multi.append((gz(data[:n], 0) + gz(data[n:], r.choice([1, 6, 9])), 2, 'edge%d' % edge))
    last = ['dump-sector', '0', str(d.tracks - 1), str(d.spt - 1)]
    for (z2, nm, how) in multi:
        for cmd in (['cat'], last, ['extract-files', '@out']):
            dest = 'out' if '@out' in cmd else None
            ref = vlib.Case('ref', {name: data}, ['--file', '@' + name] + cmd, dest=dest, meta={'role': 'ref'})
            cases += [ref, vlib.Case('gz2', {name + '.gz': z2}, ['--file', '@' + name + '.gz'] + cmd, dest=dest,
                                     meta={'role': 'gz', 'ref': ref, 'name': name, 'level': 6, 'cmd': cmd[0], 'size': len(data), 'members': nm, 'how': how})]
    # two compressed images in one run whose files have the same base name (in different directories), and two with different names:
    # each drive must still show its own disc (whatever the decompressed copies are kept in must not be shared)
    da = discs.gen_disc(r, variant='dfs', geom=(40, 10), max_files=4)
    db = discs.gen_disc(r, variant='dfs', geom=(80, 10), max_files=4)
    for dd_, tag_ in ((da, b'ZERO'), (db, b'ONE')):
        if not dd_.cats[0].files:
            dd_.cats[0].files = [discs.AbsFile(0x24, b'MENU', False, 0, 0, 2, b'menu of side ' + tag_ + r.bytes(300))]
    rfa, rfb = r.fork(), r.fork()
    ia, ib = da.encode(lambda n: rfa.bytes(n)), db.encode(lambda n: rfb.bytes(n))      # every unused sector is different too
    fa, fb = da.all_files()[0][3], db.all_files()[0][3]
    for (na, nb) in (('side0/disc.ssd', 'side1/disc.ssd'), ('p/first.ssd', 'q/second.ssd')):
        for cmd in (['cat', '0'], ['cat', '1'], ['type', '--binary', b':0.' + bytes([fa.dir]) + b'.' + fa.shown_name()],
                    ['type', '--binary', b':1.' + bytes([fb.dir]) + b'.' + fb.shown_name()], ['dump-sector', '1', '0', '1'], ['dump-sector', '0', '39', '9']):
            ref = vlib.Case('ref', {na: ia, nb: ib}, ['--file', '@' + na, '--file', '@' + nb] + cmd, meta={'role': 'ref'})
            cases += [ref, vlib.Case('gzpair', {na + '.gz': gz(ia, 6), nb + '.gz': gz(ib, 1)}, ['--file', '@' + na + '.gz', '--file', '@' + nb + '.gz'] + cmd,
                                     meta={'role': 'gz', 'ref': ref, 'name': 'pair:' + na, 'level': 6, 'cmd': cmd[0], 'size': len(ia) + len(ib), 'how': 'two-images'})]
    if True:
        big = full_mmb(r)
        zb = gz(big, 1)
        sp = vlib.Sparse(len(big) // 256, {i: big[i * 256:(i + 1) * 256] for i in list(range(0, 32 + 800)) + list(range(len(big) // 256 - 800, len(big) // 256))})
        for cmd in ((['cat', '1020'],) if quick else (['cat'], ['cat', '1020'], ['show-titles', '0', '1020'], ['free', '1020'])):   # slot k is drive 2k
            ref = vlib.Case('ref', {'big.mmb': sp}, ['--file', '@big.mmb'] + cmd, meta={'role': 'ref'})
            cases += [ref, vlib.Case('gzbig', {'big.mmb.gz': zb}, ['--file', '@big.mmb.gz'] + cmd, meta={'role': 'gz', 'ref': ref, 'name': 'big.mmb', 'level': 1, 'cmd': cmd[0], 'size': len(big)})]
    # ---- rejection
    bad = []
    for (name, data, d) in (imgs if not quick else r.shuffle(imgs)[:4]):
        z = gz(data, r.choice([1, 6, 9]))
        cuts = sorted(set([0, 1, 2, 3, 9, 10, 11, 17, len(z) - 9, len(z) - 8, len(z) - 4, len(z) - 1] + [r.below(len(z)) for _ in range(3 if quick else 40)]))
        for cut in cuts:
            if 0 <= cut < len(z):
                bad.append((name + '.gz', z[:cut], 'truncated'))
        for _ in range(4 if quick else 60):
            p = r.below(len(z))
            zz = bytearray(z)
            zz[p] ^= 1 << r.below(8)
            bad.append((name + '.gz', bytes(zz), 'bit-flip'))
        bad.append((name + '.gz', data, 'raw-named-gz'))
        bad.append((name + '.gz', b'', 'empty'))
        bad.append((name + '.gz', z + r.bytes(r.range(1, 40)), 'trailing-garbage'))
    for (fname, content, kind) in bad:
        for cmd in ([['cat']] if quick else [['cat'], ['dump-sector', '0', '0', '0']]):
            cases.append(vlib.Case('bad', {fname: content}, ['--file', '@' + fname] + cmd, meta={'role': 'bad', 'kind': kind, 'cmd': cmd[0], 'name': fname}))
    vlib.run_cases(cases, impl['dfs'], timeout=120)
    for c in cases:
        m = c.meta
        if m['role'] == 'ref':
            continue
        common.compare_model(ctx, c, 'e2e-gz-' + m['role'])
        ctx.oracle_cases += 1
        i = c.impl
        if common.crash_violation(ctx, c):
            continue
        if m['role'] == 'gz':
            ri = m['ref'].impl
            ctx.count('ext.' + m['name'].split('.')[-1])
            ctx.count('level.%d' % m['level'])
            ctx.count('members.%d' % m.get('members', 1))
            ctx.case((m['name'], m['level'], tuple(c.real_argv[-2:]), m['size']), True,
                     sample={'image': m['name'], 'bytes': m['size'], 'level': m['level'], 'cmd': m['cmd'], 'exit': i['exit']})
            fi = {k.split(b'/')[-1]: v for k, v in i['files'].items()}
            fr = {k.split(b'/')[-1]: v for k, v in ri['files'].items()}
            # extract-unused names its destination directory on stdout: compare modulo the case directory
            so = i['out'].replace(c.dir.encode(), b'<dir>')
            sr = ri['out'].replace(m['ref'].dir.encode(), b'<dir>')
            if i['exit'] != ri['exit'] or so != sr or fi != fr:
                key = 'multi-member' if m.get('members', 1) > 1 else 'gz-differs:%s:%s' % (m['name'].split('.')[-1], m['cmd'])
                ctx.violation(key, '%s on %s.gz (level %d%s, %d bytes) differs from the uncompressed image: exit %d vs %d, stdout %d vs %d bytes' % (
                    m['cmd'], m['name'], m['level'], (', %d members (%s)' % (m['members'], m.get('how'))) if m.get('members', 1) > 1 else '', m['size'], i['exit'], ri['exit'], len(i['out']), len(ri['out'])),
                    common.replay_of(c, {'reference_stdout': ri['out'].hex()[:2000]}))
            continue
        # bad streams
        content = next(iter(c.files.values()))
        try:
            inflated = vlib.gunzip_first_member(content)
            acceptable = True
        except Exception:
            acceptable = False
        ctx.count('bad.' + m['kind'] + ('.zlib-accepts' if acceptable else ''))
        ctx.case((m['name'], m['kind'], hash(content)), True, sample={'name': m['name'], 'kind': m['kind'], 'zlib_accepts': acceptable, 'exit': i['exit']})
        if acceptable:
            continue      # e.g. a flipped bit in the header's mtime: the model comparison above covers it
        if i['exit'] == 0 or i['out'] or not i['err']:
            ctx.violation('bad-gz-accepted:%s' % m['kind'], 'a %s .gz (%d bytes) that zlib rejects: dfs exit %d, %d bytes of stdout, stderr %r' % (
                m['kind'], len(content), i['exit'], len(i['out']), i['err'][:100]), common.replay_of(c))


def replay(ctx, rp):
    r = rp.get('replay', rp)
    print(rp.get('what'))
    if 'argv' in r:
        print('replay: dfs %s' % ' '.join(r['argv']))
