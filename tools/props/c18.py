"""C18 — diagnostic and presentation options never change the data shown."""
import glob
import gzip
import os
import pty
import select
import subprocess

import vlib
from gen import discs, flux
from props import common

LEAN_MODULE = 'Beeb.Props.C18'
LEAVES = []
RULE = ('generated valid discs (all variants/containers), hostile/mutated images and the repository\'s flux test images x all commands x {--verbose, --show-config, '
        'both, option order} : stdout and exit status compared with the plain run; --ui acorn|watford|opus and COLUMNS (under a pty) compared on the set of files, '
        'titles and metadata listed; every case run twice for determinism. Non-trivial = run that printed something on stdout.')
ASSUMPTIONS = ['the pty runs exercise isatty()/COLUMNS handling of cat; other commands do not read COLUMNS']

COMMANDS = [['cat'], ['info', '*.*'], ['free'], ['space'], ['sector-map'], ['show-titles'], ['dump-sector', '0', '0', '1'], ['type', '$.A'], ['list', 'A'], ['dump', 'A']]


def run_pty(argv, env, timeout=20):
    """run with stdout on a pty; returns (exit, stdout bytes)"""
    master, slave = pty.openpty()
    p = subprocess.Popen(argv, stdout=slave, stderr=subprocess.PIPE, stdin=subprocess.DEVNULL, env=env, close_fds=True)
    os.close(slave)
    out = bytearray()
    while True:
        r, _, _ = select.select([master], [], [], timeout)
        if not r:
            break
        try:
            d = os.read(master, 65536)
        except OSError:
            break
        if not d:
            break
        out += d
    p.wait(timeout=timeout)
    os.close(master)
    return p.returncode, bytes(out).replace(b'\r\n', b'\n')


def listed_files(out):
    toks = out.split()
    return sorted(t for t in toks if t not in (b'L',))


def cat_names(o):
    """the file-list tokens of a cat listing (after the Dir/Lib line), without per-UI footer words"""
    lines = o.split(b'\n')
    try:
        start = next(j for j, l in enumerate(lines) if b' :' in l and (b'Dir' in l))
    except StopIteration:
        return None
    rest = lines[start + 1:]
    # the Lib. / Work file cells may wrap onto following lines when the screen is narrow
    while rest and (rest[0].strip().startswith((b'Lib', b'Work file')) or not rest[0].strip()):
        rest = rest[1:]
    toks = b' '.join(rest).split()
    if len(toks) >= 7 and toks[-6:-5] == [b'files']:
        toks = toks[:-7]
    if toks[-2:] == [b'No', b'file']:
        toks = toks[:-2]
    return sorted(toks)


TITLES = {}


def run(ctx):
    r = ctx.rng
    impl = ctx.build('asan')
    images = []
    TITLES.clear()
    n = 10 if ctx.tier == 'quick' else 40
    for k in range(n):
        d = discs.gen_disc(r, max_files=r.choice([3, 10, None]))
        # make sure a file $.A exists for type/list/dump
        for (label, origin, vlen, cats) in d.volumes():
            if cats[0].files and not any(f.shown_name() == b'A' and f.dir == 0x24 for c in cats for f in c.files):
                cats[0].files[-1].name = b'A'
                cats[0].files[-1].dir = 0x24
        img = d.encode(discs.filler(r))
        images.append(('d%d' % k + d.extension(), img, 'valid'))
        vols_ = d.volumes()
        if vols_ and vols_[0][0] in (None, 'A'):
            TITLES['d%d' % k + d.extension()] = vols_[0][3][0].title
        if r.chance(1, 2):
            b = bytearray(img)
            for _ in range(r.range(1, 6)):
                b[r.below(min(len(b), 4608))] = r.below(256)
            images.append(('h%d' % k + d.extension(), bytes(b), 'hostile'))
        if r.chance(1, 4):
            images.append(('z%d' % k + d.extension() + '.gz', gzip.compress(img), 'gz'))
    for p in sorted(glob.glob(os.path.join(vlib.REPO, 'dfs', 'testdata', '*'))):
        if p.endswith(('.hfe.gz', '.mfm.gz', '.dsd', '.sdd.gz')):
            images.append((os.path.basename(p), open(p, 'rb').read(), 'testdata'))
    # flux images: verbose mode dumps headers, opcodes and every sector; one FM image carries a deleted-data record
    # (dropped by the decoder, with a message), one is damaged
    for k in range(2 if ctx.tier == 'quick' else 12):
        mfm = (k % 2 == 1)
        spt = 18 if mfm else 10
        d = discs.gen_disc(r, variant='dfs', geom=(40, spt), max_files=4)
        for c_ in d.cats:
            if c_.files:
                c_.files[-1].name, c_.files[-1].dir = b'A', 0x24
        img = d.encode(discs.filler(r))
        trs = []
        for t in range(40):
            secs = {rec: img[(t * spt + rec) * 256:(t * spt + rec + 1) * 256] for rec in range(spt)}
            lay = flux.TrackLayout(mfm=mfm)
            if not mfm and t == 1 + k % 3:
                secs[spt] = r.bytes(256)
                lay.deleted = {spt}
            trs.append([flux.mfm_track(t, 0, secs, lay) if mfm else flux.fm_track(t, 0, secs, lay)])
        kind_ = r.choice(['hfe1', 'hfe3'] if not mfm else ['hfe1', 'hfe3', 'hxc'])
        if kind_ == 'hxc':
            images.append(('f%d.mfm' % k, flux.hxcmfm_image(trs, 1), 'flux'))
        else:
            images.append(('f%d.hfe' % k, flux.hfe_image(trs, 1, not mfm, v3=(kind_ == 'hfe3'), opcode_rng=r.fork(), opcode_density=40), 'flux'))
            if k < 2:
                # header fields the quiet path never looks at (interface mode, bit rate, rpm, step, write flags) set to values no table knows
                for (hk, ov) in enumerate(({16: 0x0E}, {16: 0x80, 12: 0, 13: 0}, {16: 0xFF, 14: 0xFF, 15: 0xFF, 20: 0, 21: 0x55}, {17: 0x7F, 8: 9})):
                    images.append(('q%d_%d.hfe' % (k, hk), flux.hfe_image(trs, 1, not mfm, header_overrides=ov), 'flux'))
                # the same as HFE v3 with SKIPBITS opcodes whose operand is not a bit count (ignored, with a message)
                images.append(('s%d.hfe' % k, flux.hfe_image(trs, 1, not mfm, v3=True, opcode_rng=r.fork(), opcode_density=25, bad_skip=True), 'flux'))
        if k % 2 == 0:
            b = bytearray(images[-1][1])
            for _ in range(r.range(1, 4)):
                b[r.range(1100, len(b) - 1)] ^= 1 << r.below(8)
            images.append(('g%d.hfe' % k, bytes(b), 'flux-damaged'))
    # two-sided images one side of which has no file system (never formatted): --show-config has a surface to list that has no format
    for (k2, spt2, ext2) in ((0, 10, 'dsd'), (1, 18, 'ddd')):
        d2 = discs.gen_disc(r, variant='dfs', geom=(40, spt2), max_files=4, total=min(40 * spt2, 1023))
        for c_ in d2.cats:
            if c_.files:
                c_.files[-1].name, c_.files[-1].dir = b'A', 0x24
        s0 = d2.encode(lambda n: bytes(n))
        tb = spt2 * 256
        images.append(('h%d.%s' % (k2, ext2), b''.join(s0[t * tb:(t + 1) * tb] + bytes([0xE5]) * tb for t in range(40)), 'valid'))
        if k2 == 0:
            trs2 = flux.tracks_of_image(s0 + bytes([0xE5]) * len(s0), 40, spt2, 2, False)
            images.append(('h%d.hfe' % k2, flux.hfe_image(trs2, 2, True), 'flux'))
    cases = []
    variants = [[], ['--verbose'], ['--show-config'], ['--verbose', '--show-config'], ['@after:--verbose'], ['--ui', 'acorn'], ['--ui', 'watford'], ['--ui', 'opus']]
    for (name, img, kind) in images:
        cmds = COMMANDS if kind == 'testdata' else [COMMANDS[0]] + r.shuffle(COMMANDS[1:])[:(7 if ctx.tier == 'thorough' else 3)]
        for cmd in cmds:
            for v in variants:
                if v and v[0].startswith('@after:'):
                    argv = ['--file', '@' + name, v[0][7:]] + cmd
                else:
                    argv = v + ['--file', '@' + name] + cmd
                for rep in (0, 1):
                    cases.append(vlib.Case(name, {name: img}, argv, meta={'img': name, 'kind': kind, 'cmd': tuple(cmd), 'variant': tuple(v), 'rep': rep}))
    # a healthy disc in drive 0 and a second image whose catalogue cannot be loaded in drive 1: commands on drive 0 must not care
    pair_cases = []
    good = [x for x in images if x[2] == 'valid'][:3]
    wd = discs.gen_disc(r, variant='wdfs', geom=(80, 10), max_files=4)
    wimg = wd.encode(lambda n: bytes(n))
    seconds = [('t2.ssd', wimg[:768]), ('t3.ssd', wimg[:1024 + 100]), ('t4.ssd', wimg[:512])]
    for (name, img, kind) in good:
        for (sname, simg) in seconds:
            for cmd in (['cat'], ['info', '*.*'], ['free'], ['show-titles', '0']):
                for v in ([], ['--show-config'], ['--verbose']):
                    pair_cases.append(vlib.Case(name, {name: img, sname: simg}, v + ['--file', '@' + name, '--drive-first', '--file', '@' + sname] + cmd,
                                                meta={'img': name, 'second': sname, 'cmd': tuple(cmd), 'variant': tuple(v)}))
    vlib.run_cases(pair_cases, impl['dfs'])
    pbase = {}
    for c in pair_cases:
        if not c.meta['variant']:
            pbase[(c.meta['img'], c.meta['second'], c.meta['cmd'])] = c
    for c in pair_cases:
        common.compare_model(ctx, c, 'e2e-two-images', compare_err=False)
        ctx.oracle_cases += 1
        ctx.case(('pair', c.meta['img'], c.meta['second'], c.meta['cmd'], c.meta['variant']), True)
        b = pbase[(c.meta['img'], c.meta['second'], c.meta['cmd'])].impl
        i = c.impl
        if vlib.crashed(i['exit'], i['err']) or vlib.crashed(b['exit'], b['err']):
            continue
        if c.meta['variant'] and (i['out'] != b['out'] or i['exit'] != b['exit']):
            ctx.violation('option-changes-data:' + c.meta['variant'][0], '%s changes %s of `%s` when a second, damaged image is attached' % (
                c.meta['variant'][0], 'stdout' if i['out'] != b['out'] else 'the exit status (%d vs %d)' % (i['exit'], b['exit']), ' '.join(c.meta['cmd'])), common.replay_of(c))
    # option order: options that do not attach images commute with each other
    order_cases = []
    for (name, img, kind) in [x for x in images if x[2] == 'valid']:
        for (dopt, uopt) in ((['--dir', r.choice('ABab$')], ['--ui', r.choice(['acorn', 'watford', 'opus'])]),
                             (['--drive', r.choice(['0', '0A', '0B', '2'])], ['--ui', r.choice(['acorn', 'watford', 'opus'])]),
                             (['--dir', r.choice('ABab$')], ['--drive', r.choice(['0', '0B'])])):
            for cmd in (['info', '*.*'], ['cat'], ['type', 'A']):
                a = vlib.Case(name, {name: img}, ['--file', '@' + name] + dopt + uopt + cmd, meta={'order': (dopt, uopt, cmd), 'img': name})
                b = vlib.Case(name, {name: img}, ['--file', '@' + name] + uopt + dopt + cmd, meta={'order': (uopt, dopt, cmd), 'img': name})
                order_cases.append((a, b))
    vlib.run_cases([c for ab in order_cases for c in ab], impl['dfs'])
    for a, b in order_cases:
        common.compare_model(ctx, a, 'e2e-option-order', compare_err=False)
        common.compare_model(ctx, b, 'e2e-option-order', compare_err=False)
        ctx.oracle_cases += 1
        ctx.case(('order', a.meta['img'], str(a.meta['order'])), True)
        if vlib.crashed(a.impl['exit'], a.impl['err']) or vlib.crashed(b.impl['exit'], b.impl['err']):
            continue
        if a.impl['out'] != b.impl['out'] or a.impl['exit'] != b.impl['exit']:
            ctx.violation('option-order', 'swapping %s and %s changes the result of `%s` (exit %d vs %d)' % (
                ' '.join(a.meta['order'][0]), ' '.join(a.meta['order'][1]), ' '.join(a.meta['order'][2]), a.impl['exit'], b.impl['exit']), common.replay_of(b))
    vlib.run_cases(cases, impl['dfs'])
    base = {}
    for c in cases:
        m = c.meta
        if not m['variant']:
            base.setdefault((m['img'], m['cmd']), c)
    for c in cases:
        m = c.meta
        i = c.impl
        ctx.count('kind.' + m['kind'])
        if not m['variant'] or m['variant'][0] != '--ui':
            common.compare_model(ctx, c, 'e2e-' + (m['variant'][0] if m['variant'] else 'plain'), compare_err=False)
        ctx.oracle_cases += 1
        ctx.case((m['img'], m['cmd'], m['variant'], m['rep']), bool(i['out']), sample={'argv': [a.decode('latin-1') for a in c.real_argv][:8]} if m['variant'] else None)
        if vlib.crashed(i['exit'], i['err']):
            continue      # crashes are C07's subject; here only differences matter
        b = base[(m['img'], m['cmd'])].impl
        if vlib.crashed(b['exit'], b['err']):
            continue
        v = m['variant']
        if not v and m['cmd'] == ('cat',) and i['exit'] == 0:
            t_ = TITLES.get(m['img'], b'').split(b'\0')[0].rstrip(b' ')
            if t_ and all(32 < ch < 127 for ch in t_) and t_ not in i['out']:
                ctx.violation('ui-drops-title', 'cat (default UI) does not show the disc title %r' % t_, common.replay_of(c))
        if v and v[0] == '--ui':
            if m['cmd'] == ('cat',):
                if b['exit'] != i['exit']:
                    ctx.violation('ui-changes-status', 'cat exit status changes with --ui %s (%d vs %d)' % (v[1], i['exit'], b['exit']), common.replay_of(c))
                elif i['exit'] == 0:
                    names = cat_names
                    t_ = TITLES.get(m['img'], b'').split(b'\0')[0].rstrip(b' ')
                    if t_ and all(32 < ch < 127 for ch in t_) and t_ not in i['out']:
                        ctx.violation('ui-drops-title', 'cat --ui %s does not show the disc title %r' % (v[1], t_), common.replay_of(c))
                    if names(i['out']) != names(b['out']):
                        ctx.violation('ui-changes-files', 'cat --ui %s lists a different set of files than the default UI' % v[1], common.replay_of(c))
            elif i['out'] != b['out'] or i['exit'] != b['exit']:
                ctx.violation('ui-changes-output', '--ui %s changes the output of %s' % (v[1], ' '.join(m['cmd'])), common.replay_of(c))
        elif i['out'] != b['out'] or i['exit'] != b['exit']:
            what = 'repeated run differs' if not v else '%s changes %s' % (' '.join(x.replace('@after:', '(after --file) ') for x in v), 'stdout' if i['out'] != b['out'] else 'the exit status (%d vs %d)' % (i['exit'], b['exit']))
            ctx.violation('nondeterministic' if not v else 'option-changes-data:' + v[0].replace('@after:', ''), '%s of `%s` on a %s image' % (what, ' '.join(m['cmd']), m['kind']), common.replay_of(c))
    # COLUMNS under a pty
    import tempfile
    import shutil
    tmp = tempfile.mkdtemp(prefix='beebverif-c18-')
    try:
        for (name, img, kind) in [x for x in images if x[2] == 'valid'][:6 if ctx.tier == 'quick' else 40]:
            p = os.path.join(tmp, name)
            open(p, 'wb').write(img)
            ref = None
            for cols in (None, '10', '20', '39', '40', '79', '80', '132', '0', 'x'):
                env = dict(os.environ)
                env['ASAN_OPTIONS'] = 'detect_leaks=0'
                env.pop('COLUMNS', None)
                if cols is not None:
                    env['COLUMNS'] = cols
                for ui in ('acorn', 'watford'):
                    rc, out = run_pty([impl['dfs'], '--ui', ui, '--file', p, 'cat'], env)
                    ctx.oracle_cases += 1
                    ctx.case(('pty', name, cols, ui), True)
                    cur = (rc, cat_names(out))
                    if ref is None:
                        ref = {}
                    ref.setdefault(ui, cur)
                    if ref[ui][0] != cur[0] or ref[ui][1] != cur[1]:
                        ctx.violation('columns-changes-files', 'cat under COLUMNS=%s (--ui %s) lists different files/metadata than with COLUMNS unset' % (cols, ui), {'image': name, 'columns': cols, 'ui': ui, 'image_hex': img.hex()[:200000]})
    finally:
        shutil.rmtree(tmp, ignore_errors=True)


def replay(ctx, rp):
    print(rp.get('what'))
