"""C09 — bbcbasic_to_text rejects truncated or ill-formed programs and never invents text."""
import vlib
from gen import basicprog
from props import common, basic_common as bc

LEAN_MODULE = 'Beeb.Props.C09'
LEAVES = ['target_line_number']
RULE = ('well-formed programs of every dialect: proper non-empty prefixes (all of them for short programs, boundaries +-2 and a sample otherwise), '
        'single-byte framing corruptions (start byte, length byte, terminator, unassigned token / extension code, line reference or extension cut by end of line, '
        'crunched Windows variables), and sequences of 1..4 input files (valid / truncated) in every order; expected: non-zero exit with a diagnostic, stdout a prefix '
        'of the intact listing, each file\'s listing independent of the others. Non-trivial = truncated or corrupted input.')
ASSUMPTIONS = []


def corruptions(r, lines, tbl, be, canon):
    """(description, bytes) of ill-formed variants"""
    data = bytearray(basicprog.encode(lines, be))
    out = []
    # positions of line starts
    pos = 0
    starts = []
    for l in lines:
        starts.append(pos)
        pos += len(l.data()) + (4 if be else 4)
    if not starts:
        return out
    s = r.choice(starts)
    L = lines[starts.index(s)]
    dlen = len(L.data())
    if be:
        d = bytearray(data); d[s] = r.choice([0x00, 0x0A, 0x0E, 0xFF]); out.append(('bad-start-byte', bytes(d)))
        d = bytearray(data); d[s + 3] = r.below(4); out.append(('impossible-length', bytes(d)))
        body = s + 4
    else:
        d = bytearray(data); d[s] = r.choice([1, 2]); out.append(('impossible-length', bytes(d)))
        d = bytearray(data); d[s + 3 + dlen] = r.choice([0x00, 0x0A, 0x20, 0xFF]); out.append(('missing-terminator', bytes(d)))
        body = s + 3
    base = tbl['base']
    bad_toks = [b for b in range(256) if base[b] == '__invalid__']
    if dlen > 0:
        # replace a token/literal that is outside strings
        off = 0
        cands = []
        for it in L.items:
            if it.kind in ('tok', 'lit'):
                cands.append(off)
            off += len(it.encode())
        if cands and bad_toks:
            d = bytearray(data); d[body + r.choice(cands)] = r.choice(bad_toks); out.append(('unassigned-token', bytes(d)))
        if cands and canon == 'Windows':
            d = bytearray(data); d[body + r.choice(cands)] = r.range(0x18, 0x1F); out.append(('crunched-variable', bytes(d)))
    # line whose last bytes are a cut line reference / extension introducer
    def with_tail(tail):
        l2 = basicprog.Line(L.num, [])
        raw = tail
        if be:
            return bytes(data[:s]) + bytes([0x0D, L.num >> 8, L.num & 255, len(raw) + 4]) + raw + bytes(data[s + 4 + dlen:])
        return bytes(data[:s]) + bytes([len(raw) + 4, L.num & 255, L.num >> 8]) + raw + b'\r' + bytes(data[s + 4 + dlen:])
    for cut in (1, 2, 3):
        out.append(('lineref-cut-%d' % cut, with_tail(b'\xE5' + (b'\x8D' + basicprog.encode_ref(r.below(65536)))[:cut])))
    for intro, mp in ((0xC6, 'c6'), (0xC7, 'c7'), (0xC8, 'c8')):
        if base[intro] in ('__c6__', '__c7__', '__c8__', '__pdp__'):
            out.append(('extension-cut', with_tail(b'\xF1' + bytes([intro]))))
            if base[intro] != '__pdp__':
                bad = [b for b in range(256) if tbl[mp][b] == '__invalid__']
                out.append(('unassigned-extension', with_tail(bytes([intro, r.choice(bad)]))))
    return out


def run(ctx):
    r = ctx.rng
    impl = ctx.build('asan')
    tbls = bc.tables(impl)
    cases = []
    nprog = 4 if ctx.tier == 'quick' else 40
    for name in bc.DIALECT_NAMES:
        idx, be, canon = basicprog.DIALECTS[name]
        for k in range(nprog):
            lines, tbl, be = bc.gen_for(r, tbls, name, max_lines=r.choice([1, 3, 8]))
            data = basicprog.encode(lines, be)
            listo = r.below(8)
            full = vlib.Case(name, {'p.bbc': data}, ['--dialect', name, '--listo', str(listo), '@p.bbc'], tool='basic', meta={'kind': 'full', 'dialect': name})
            cases.append(full)
            if len(data) <= 60 or ctx.tier == 'thorough' and len(data) <= 400:
                cuts = list(range(1, len(data)))
            else:
                cuts = sorted(set([1, 2, 3, 4, 5, len(data) - 1, len(data) - 2, len(data) - 3] + [r.range(1, len(data) - 1) for _ in range(24)]))
            for cut in cuts:
                cases.append(vlib.Case(name, {'p.bbc': data[:cut]}, ['--dialect', name, '--listo', str(listo), '@p.bbc'], tool='basic',
                                       meta={'kind': 'prefix', 'full': full, 'cut': cut, 'of': len(data), 'dialect': name}))
            for (what, bad) in corruptions(r, lines, tbl, be, canon):
                cases.append(vlib.Case(name, {'p.bbc': bad}, ['--dialect', name, '--listo', str(listo), '@p.bbc'], tool='basic',
                                       meta={'kind': 'framing', 'what': what, 'dialect': name}))
        # several input files
        pool = []
        for k in range(3):
            lines, tbl, be = bc.gen_for(r, tbls, name, max_lines=4)
            d = basicprog.encode(lines, be)
            pool.append(d)
            pool.append(d[:r.range(1, len(d) - 1)])
        # programs that fail in the middle of a line (a line reference cut short by the end of the line, an unassigned
        # extension token): what was printed of that line must not leak into the next file's listing
        idx_, be_, canon_ = basicprog.DIALECTS[name]
        for tail in ([0x8D, 0x54], [0x8D], [0xC6, 0x00], [0xC8, 0x00], [0xC7, 0xFF]):
            bad_line = basicprog.Line(20, [basicprog.Item('tok', 0xF1), basicprog.Item('lit', 0x22), basicprog.Item('lit', 0x48), basicprog.Item('lit', 0x49), basicprog.Item('lit', 0x22),
                                           basicprog.Item('lit', 0x3A)] + [basicprog.Item('lit', b_) for b_ in tail])
            pool.append(basicprog.encode([basicprog.Line(10, [basicprog.Item('tok', 0xF1)]), bad_line], be_))
        singles = {}
        for j, d in enumerate(pool):
            c = vlib.Case(name, {'f%d' % j: d}, ['--dialect', name, '@f%d' % j], tool='basic', meta={'kind': 'single', 'dialect': name})
            singles[j] = c
            cases.append(c)
        nseq = 6 if ctx.tier == 'quick' else 60
        for q in range(nseq):
            seq = [r.below(len(pool)) for _ in range(r.range(2, 4))]
            if q < 5:
                seq = [6 + q, 0]          # each mid-line failure followed by a valid program
            cases.append(vlib.Case(name, {'f%d' % j: pool[j] for j in set(seq)}, ['--dialect', name] + ['@f%d' % j for j in seq], tool='basic',
                                   meta={'kind': 'multi', 'seq': seq, 'singles': singles, 'dialect': name}))
    vlib.run_cases(cases, bc.bins(impl))
    for c in cases:
        bc.compare(ctx, c, 'e2e-' + c.meta['kind'])
        m = c.meta
        i = c.impl
        ctx.oracle_cases += 1
        ctx.count('kind.' + m['kind'] + ('.' + m['what'] if 'what' in m else ''))
        ctx.case((m['kind'], m['dialect'], tuple(sorted(c.files.items())), tuple(c.argv)), m['kind'] in ('prefix', 'framing', 'multi'),
                 sample={'kind': m['kind'], 'argv': [a.decode('latin-1') for a in c.real_argv[:3]], 'input_hex': list(c.files.values())[0].hex()[:80]})
        if common.crash_violation(ctx, c):
            continue
        if m['kind'] == 'prefix':
            full = m['full'].impl
            if i['exit'] == 0 or not i['err']:
                ctx.violation('truncation-accepted', 'program cut at byte %d of %d (%s): exit %d, stderr %r' % (m['cut'], m['of'], m['dialect'], i['exit'], i['err'][:60]),
                              common.replay_of(c))
            elif not full['out'].startswith(i['out']):
                ctx.violation('invented-text', 'program cut at byte %d of %d (%s) printed text that the intact program does not: %r' % (
                    m['cut'], m['of'], m['dialect'], i['out'][-60:]), common.replay_of(c))
        elif m['kind'] == 'framing':
            if i['exit'] == 0 or not i['err']:
                ctx.violation('framing-accepted:' + m['what'], 'ill-formed program (%s, %s) accepted: exit %d, stderr %r' % (m['what'], m['dialect'], i['exit'], i['err'][:60]),
                              common.replay_of(c))
        elif m['kind'] == 'multi':
            want = b''.join(m['singles'][j].impl['out'] for j in m['seq'])
            wexit = max(m['singles'][j].impl['exit'] for j in m['seq'])
            if i['out'] != want or i['exit'] != wexit:
                ctx.violation('files-not-independent', 'listing of files %s differs from the concatenation of the individual listings (exit %d vs %d)' % (m['seq'], i['exit'], wexit),
                              common.replay_of(c))
        elif m['kind'] == 'full':
            if i['exit'] != 0:
                ctx.violation('valid-rejected', 'well-formed program rejected (%s)' % m['dialect'], common.replay_of(c))


def replay(ctx, rp):
    print(rp.get('what'))
