"""C17 — no command returns bytes from outside the volume or surface being read."""
import vlib
from gen import discs
from props import common

LEAN_MODULE = 'Beeb.Props.C17'
LEAVES = ['volume_access_beyond', 'fileview_pos', 'fileview_unformatted', 'fileview_beyond', 'last_sector', 'file_length', 'start_sector']
RULE = ('catalogues whose entries end at boundary-2 … boundary+2 of every Opus volume A-H, of both sides of two-sided images and of '
        'neighbouring MMB slots, with every region filled with a region-specific byte; the output of type --binary / dump / extract-files '
        'must be bytes of the region addressed or an error. Non-trivial = entry within 2 sectors of a boundary.')
ASSUMPTIONS = ['region tagging: every sector of a region starts with a 2-byte tag identifying the region, so leaked bytes identify their origin']


def tagged_fill(regions, total):
    """regions: list of (start_sector, end_sector, tag byte)"""
    img = bytearray(total * 256)
    for (a, b, tag) in regions:
        for s in range(a, min(b, total)):
            img[s * 256:(s + 1) * 256] = bytes([tag]) * 256
    return img


def run(ctx):
    r = ctx.rng
    impl = ctx.build('asan')
    cases = []
    n = 24 if ctx.tier == 'quick' else 300
    for k in range(n):
        kind = ['opus', 'dsd', 'opus', 'mmb', 'ssd2'][k % 5]      # every kind in every run
        ctx.count('kind.' + kind)
        if kind == 'opus':
            tracks = r.choice([40, 80, 35])
            nvol = r.range(2, 8)
            cuts = sorted(r.shuffle(list(range(2, tracks)))[:nvol - 1])
            starts = [1] + cuts
            ends = cuts + [tracks]
            d = discs.AbsDisc('opus', tracks, 18)
            regions = []
            target = r.below(nvol)
            for vi in range(nvol):
                vlen = (ends[vi] - starts[vi]) * 18
                tag = 0x41 + vi
                regions.append((starts[vi] * 18, ends[vi] * 18, tag))
                files = []
                if vi == target:
                    delta = r.choice([-2, -1, 0, 1, 2, 3, 18])
                    nsec = r.choice([1, 1, 2, 5])
                    start = vlen + delta - nsec
                    if 0 <= start <= 1023:
                        ln = nsec * 256 - r.choice([0, 0, 1, 255])
                        f = discs.AbsFile(0x24, b'EDGE', False, 0, 0, start, b'', length=ln)
                        files.append(f)
                # the catalogue's own sector count is not to be trusted: sometimes it claims more than the gap to the next volume
                claimed = min(vlen, 1023)
                if vi == target and k % 2 == 0:
                    claimed = min(1023, vlen + r.choice([1, 5, 18, 200]))
                d.vols[vi] = (starts[vi], discs.AbsCat(b'V%d' % vi, 0, 0, claimed, files))
            img = bytearray(d.encode(lambda nn: bytes(nn)))
            t = tagged_fill(regions, tracks * 18)
            img[18 * 256:] = t[18 * 256:]
            name = 'o.sdd'
            f = d.vols[target][1].files
            if not f:
                continue
            f = f[0]
            label = chr(65 + target)
            vlen = (ends[target] - starts[target]) * 18
            over = f.start + f.sectors() - vlen
            ctx.count('overrun.%+d' % max(-3, min(over, 3)))
            for cmd in (['type', '--binary'], ['dump']):
                cases.append(vlib.Case('o%d' % k, {name: bytes(img)}, ['--file', '@' + name] + cmd + [common.fsp(label, f)],
                                       meta={'tag': 0x41 + target, 'over': over, 'len': f.length, 'cmd': cmd, 'kind': kind}))
            cases.append(vlib.Case('o%d' % k, {name: bytes(img)}, ['--file', '@' + name, '--drive', '0' + label, 'extract-files', '@out'], dest='out',
                                   meta={'tag': 0x41 + target, 'over': over, 'len': f.length, 'cmd': ['extract-files'], 'kind': kind}))
        else:
            # surfaces of 80x10: dsd (interleaved, 2 sides), ssd2 = two images, mmb = neighbouring slots
            side = 800
            delta = r.choice([-2, -1, 0, 1, 2])
            nsec = r.choice([1, 2, 4])
            start = side + delta - nsec
            ln = nsec * 256 - r.choice([0, 1])
            f = discs.AbsFile(0x24, b'EDGE', False, 0, 0, start, b'', length=ln)
            over = start + nsec - side
            ctx.count('overrun.%+d' % max(-3, min(over, 3)))
            cat = discs.AbsCat(b'SIDE', 0, 0, 800, [f])
            s0 = bytearray(bytes([0x61]) * (800 * 256))
            a, b = cat.sectors()
            s0[0:512] = a + b
            s1 = bytearray(bytes([0x62]) * (800 * 256))
            c2, d2 = discs.AbsCat(b'OTHER', 0, 0, 800, []).sectors()
            s1[0:512] = c2 + d2
            if kind == 'dsd':
                img = bytearray()
                for t in range(80):
                    img += s0[t * 2560:(t + 1) * 2560] + s1[t * 2560:(t + 1) * 2560]
                name = 'x.dsd'
                files = {name: bytes(img)}
                argv = ['--file', '@' + name]
            elif kind == 'ssd2':
                name = 'x.ssd'
                files = {name: bytes(s0) + bytes(s1)}   # 80-track image followed by other data
                argv = ['--file', '@' + name]
            else:
                slot = r.choice([0, 1, 5, 509])
                hdr = bytearray(8192)
                for sl in range(511):
                    hdr[16 * (sl + 1) + 15] = 0xF0
                hdr[16 * (slot + 1) + 15] = 0x0F
                hdr[16 * (slot + 2) + 15] = 0x00
                img = bytearray(hdr) + bytes(204800 * slot) + bytes(s0) + bytes(s1)
                name = 'x.mmb'
                files = {name: bytes(img)}
                argv = ['--file', '@' + name, '--drive', str(slot * 2 if False else 0)]
                # physical allocation gives slot k drive number 2k
                argv = ['--file', '@' + name, '--drive', str(2 * slot)]
            for cmd in (['type', '--binary'], ['dump']):
                cases.append(vlib.Case('s%d' % k, files, argv + cmd + [b'$.EDGE'],
                                       meta={'tag': 0x61, 'over': over, 'len': ln, 'cmd': cmd, 'kind': kind}))
            cases.append(vlib.Case('s%d' % k, files, argv + ['extract-files', '@out'], dest='out',
                                   meta={'tag': 0x61, 'over': over, 'len': ln, 'cmd': ['extract-files'], 'kind': kind}))
    # truncated two-sided images (the file stops inside the last tracks): a file of side 1 that reaches into the missing part
    # must not be completed with whatever else is at hand (side 0's sectors, stale buffers)
    for (tracks, cutsec) in ((40, 792), (40, 785), (80, 1590), (40, 799)):
        s0 = bytearray(bytes([0x61]) * (tracks * 10 * 256))
        a, b = discs.AbsCat(b'SIDE0', 0, 0, tracks * 10, []).sectors()
        s0[0:512] = a + b
        s1 = bytearray(bytes([0x62]) * (tracks * 10 * 256))
        first = tracks * 10 - 20
        f = discs.AbsFile(0x24, b'EDGE', False, 0, 0, first, b'', length=20 * 256)
        c2, d2 = discs.AbsCat(b'SIDE1', 0, 0, tracks * 10, [f]).sectors()
        s1[0:512] = c2 + d2
        img = bytearray()
        for t in range(tracks):
            img += s0[t * 2560:(t + 1) * 2560] + s1[t * 2560:(t + 1) * 2560]
        img = bytes(img[:cutsec * 256])
        for cmd in (['type', '--binary'], ['dump']):
            cases.append(vlib.Case('tr%d-%d' % (tracks, cutsec), {'t.dsd': img}, ['--file', '@t.dsd', '--drive', '2'] + cmd + [b'$.EDGE'],
                                   meta={'tag': 0x62, 'over': 1, 'len': 20 * 256, 'cmd': cmd, 'kind': 'dsd-truncated'}))
        cases.append(vlib.Case('tr%d-%d' % (tracks, cutsec), {'t.dsd': img}, ['--file', '@t.dsd', '--drive', '2', 'extract-files', '@out'], dest='out',
                               meta={'tag': 0x62, 'over': 1, 'len': 20 * 256, 'cmd': ['extract-files'], 'kind': 'dsd-truncated'}))
        cases.append(vlib.Case('tr%d-%d' % (tracks, cutsec), {'t.dsd': img}, ['--file', '@t.dsd', '--drive', '2', 'extract-unused', '@out'], dest='out',
                               meta={'tag': 0x62, 'over': 0, 'len': 0, 'cmd': ['extract-unused'], 'kind': 'dsd-truncated'}))
        ctx.count('kind.dsd-truncated')
    vlib.run_cases(cases, impl['dfs'])
    for c in cases:
        common.compare_model(ctx, c, 'e2e-' + c.meta['cmd'][0])
        i = c.impl
        m = c.meta
        ctx.oracle_cases += 1
        ctx.case(c.real_argv, abs(m['over']) <= 2, sample={'argv': [a.decode('latin-1') for a in c.real_argv[2:]], 'overrun_sectors': m['over']})
        if common.crash_violation(ctx, c):
            continue
        if m['cmd'][0] == 'extract-unused':
            # unused space of side 1: every byte written must come from side 1
            data = b''.join(v for k, v in sorted(i['files'].items()))
            foreign = [b for b in data if b != m['tag']]
            if foreign:
                ctx.violation('leak-%s' % m['kind'], 'extract-unused output %d byte(s) that are not on this surface (first foreign byte 0x%02X; exit %d)' % (len(foreign), foreign[0], i['exit']),
                              common.replay_of(c))
            continue
        if m['cmd'][0] == 'extract-files':
            data = b''.join(v for k, v in sorted(i['files'].items()) if not k.endswith(b'.inf'))
        elif m['cmd'][0] == 'dump':
            data = bytes(int(tok, 16) for line in i['out'].split(b'\n') if line for tok in line[6:30].split() if tok != b'**')
        else:
            data = i['out']
        foreign = [b for b in data if b != m['tag']]
        if foreign:
            ctx.violation('leak-%s' % m['kind'], '%s output %d byte(s) from outside the volume/surface (first foreign byte 0x%02X; entry overruns by %d sector(s); exit %d)' % (
                ' '.join(m['cmd']), len(foreign), foreign[0], m['over'], i['exit']), common.replay_of(c))
        elif m['over'] > 0 and i['exit'] == 0:
            ctx.violation('overrun-not-reported', 'entry reaching %d sector(s) beyond its volume/surface was not reported as an error (%s exit 0)' % (m['over'], ' '.join(m['cmd'])),
                          common.replay_of(c))
        elif m['over'] <= 0 and (i['exit'] != 0 or (m['cmd'][0] == 'type' and len(data) != m['len'])):
            ctx.violation('inside-entry-rejected', 'entry inside its volume/surface (overrun %d) failed: exit %d, %d bytes' % (m['over'], i['exit'], len(data)), common.replay_of(c))


def replay(ctx, rp):
    print(rp.get('what'))
