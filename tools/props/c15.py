"""C15 — wildcards and file names select exactly the files DFS semantics say."""
import vlib
from gen import discs
from props import common

LEAN_MODULE = 'Beeb.Props.C15'
LEAVES = ['directory', 'byte_to_ascii7']
RULE = ('wildcards over the DFS character set (letters, digits, # * . : and the regex metacharacters ^ $ [ ] ( ) \\ + ? | { } -) x catalogues of names over the same set '
        'x --drive/--dir x Opus volume letters: (1) the real AFSPMatcher in-process vs the Lean model vs the documented semantics (spec implemented in Python) on '
        'wildcard/name pairs incl. all single-character pairs in the thorough tier; (2) the model\'s ERE matcher vs glibc regcomp/regexec on generated patterns; '
        '(3) end-to-end info / type on generated discs. Non-trivial = wildcard containing a metacharacter or # or *.')
ASSUMPTIONS = ['glibc regcomp/regexec is validated against the model of the ERE subset on generated patterns only (not proved)']

META = b'^$[]()\\+?|{}-'
ALPHA = b'ABCXYZabcxyz0123456789!&%@_~' + META
PRINTABLE = bytes(c for c in range(0x21, 0x7F) if c not in b'.:#*"')


def lower(c):
    return c + 32 if 65 <= c <= 90 else c


def wild_match(p, s):
    """documented AFSP semantics on qualified strings (tied to Beeb.Spec.wildMatch on every use)"""
    r = wild_match_(bytes(p), bytes(s))
    vlib.spec_tie('wild %s %s' % (vlib.hexs(p), vlib.hexs(s)), '1' if r else '0')
    return r


def wild_match_(p, s):
    if not p:
        return not s
    w = p[0]
    if w == 0x23:
        return bool(s) and s[0] != 0x2E and wild_match_(p[1:], s[1:])
    if w == 0x2A:
        return wild_match_(p[1:], s) or (bool(s) and s[0] != 0x2E and wild_match_(p, s[1:]))
    return bool(s) and lower(w) == lower(s[0]) and wild_match_(p[1:], s[1:])


def qualify_wild(vol, dirc, w):
    """(drive string, full pattern) or None: optional :N[A-H]. optional D. name"""
    drive = None
    rest = w
    if w[:1] == b':':
        j = 1
        while j < len(w) and 48 <= w[j] <= 57:
            j += 1
        if j == 1:
            drive = None
        else:
            k = j
            if k < len(w) and 65 <= w[k] <= 72 and w[k + 1:k + 2] == b'.':
                drive = w[:k + 2]; rest = w[k + 2:]
            elif w[k:k + 1] == b'.':
                drive = w[:k + 1]; rest = w[k + 1:]
    def split(rest):
        if len(rest) >= 3 and rest[1:2] == b'.' and rest[0:1] != b'.' and b'.' not in rest[2:]:
            return rest[0:2], rest[2:]
        if rest and b'.' not in rest:
            return None, rest
        return False
    sp = split(rest)
    if sp is False:
        drive = None
        sp = split(w)
        if sp is False:
            return None
    d, nm = sp
    return (drive or (b':' + vol + b'.')) + (d or (bytes([dirc]) + b'.')) + nm


def rand_name(r, n=None):
    n = n or r.range(1, 7)
    src = PRINTABLE if r.chance(1, 3) else ALPHA
    return bytes(r.choice(src) for _ in range(n))


def rand_wild(r, names):
    k = r.below(12)
    if k >= 10 and names:
        # wildcards longer than a name can be: `*` also stands for the empty run, so they can still select real names
        base = r.choice(names)
        style = r.choice([0, 1, 2, 3])
        if style == 0:
            w = b'*'.join(bytes([c]) for c in base) + b'*'                    # A*B*C*
        elif style == 1:
            w = b'*' * (8 - min(len(base), 7)) + base + b'*'                    # ****NAME*
        elif style == 2:
            w = base[:1] + b'**' + base[1:] + b'***'
        else:
            w = b'*' + base + b'*' * r.range(7, 10)
    elif k < 4 and names:
        base = bytearray(r.choice(names))
        for _ in range(r.below(3)):
            p = r.below(len(base))
            base[p] = r.choice(b'#*' + META + PRINTABLE)
        w = bytes(base)
    elif k < 6:
        w = rand_name(r, r.range(1, 5)) + r.choice([b'', b'*', b'#', b'*#'])
    elif k < 8:
        w = bytes(r.choice(b'#*' + META + b'Aa') for _ in range(r.range(1, 4)))
    else:
        w = r.choice([b'*', b'#', b'*.*', b'#.*', b'^', b'^*', b'[', b']', b'[]', b'\\', b'(', b'a-z', b'{1}', b'$', b'A|B', b'+', b'?'])
    if r.chance(1, 4):
        w = bytes([r.choice(b'$AaB#*')]) + b'.' + w
    if r.chance(1, 6):
        w = b':' + r.choice([b'0', b'1', b'2', b'0A', b'0B']) + b'.' + w
    return w


def run(ctx):
    r = ctx.rng
    impl = ctx.build('asan')
    # (1)+(2) in-process streams
    reqs = []
    meta = []
    npairs = 1500 if ctx.tier == 'quick' else 20000
    pool = [rand_name(r) for _ in range(40)]
    for _ in range(npairs):
        w = rand_wild(r, pool)
        nm = r.choice(pool) if r.chance(2, 3) else rand_name(r)
        d1 = r.choice(b'$$AaB')
        d2 = r.choice(b'$$AaB')
        sub = r.choice(['-', '-', '-', 'A', 'B'])
        reqs.append('afsp 0 %s %02x %s 0 %s %02x %s' % (sub, d1, w.hex(), sub, d2, nm.hex()))
        meta.append((w, nm, d1, d2, sub))
    # every single character against itself (each must match only itself / its other case)
    for a in range(1, 256):
        if a in (0x2E, 0x3A, 0x23, 0x2A, 0x20):
            continue
        for b in sorted(set([a, a ^ 0x20, (a + 1) % 256 or 1])):
            if b in (0, 0x2E, 0x3A, 0x23, 0x2A, 0x20):
                continue
            reqs.append('afsp 0 - 24 %02x 0 - 24 %02x' % (a, b))
            meta.append((bytes([a]), bytes([b]), 0x24, 0x24, '-'))
    if ctx.tier == 'thorough':
        for a in range(1, 128):
            for b in range(33, 127):
                if a in (0x2E,) or b in (0x2E, 0x3A, 0x23, 0x2A, 0x20):
                    continue
                reqs.append('afsp 0 - 24 %02x 0 - 24 %02x' % (a, b))
                meta.append((bytes([a]), bytes([b]), 0x24, 0x24, '-'))

    def cmp_afsp(rq, impl_line, model_line):
        j = cmp_afsp.j
        cmp_afsp.j += 1
        w, nm, d1, d2, sub = meta[j]
        nontriv = any(c in b'#*' + META for c in w)
        ctx.case(rq, nontriv, sample={'wildcard': w.decode('latin-1'), 'name': nm.decode('latin-1'), 'dir': chr(d2), 'impl': impl_line})
        ctx.traces += 1
        ctx.oracle_cases += 1
        ctx.count('meta.%s' % ('yes' if nontriv else 'no'))
        if impl_line != model_line:
            ctx.disagree('afsp', 'wildcard %r name %r: impl %s model %s' % (w, nm, impl_line, model_line), {'request': rq})
        vol = b'0' + (sub.encode() if sub != '-' else b'')
        full = qualify_wild(vol, d1, w)
        if full is None:
            want = 'invalid'
        else:
            qn = b':' + vol + b'.' + bytes([d2]) + b'.' + nm
            if any(c in b'.:#*' for c in nm):
                return      # names that are not plain DFS names: canonicalisation quirks, model-compared only
            want = '1' if wild_match(full, qn) else '0'
        got = impl_line.split(' ')[0]
        if got != want:
            # drive given in the wildcard differs from the volume asked: not a match by definition
            ctx.violation('afsp-semantics', 'wildcard %r (--drive %s --dir %s) vs %s.%s: AFSPMatcher says %s, documented semantics say %s' % (
                w.decode('latin-1'), vol.decode(), chr(d1), chr(d2), nm.decode('latin-1'), got, want), {'request': rq, 'impl': impl_line, 'model': model_line})
    cmp_afsp.j = 0
    ctx.pair('afsp', reqs, cmp_afsp)

    ere_reqs = []
    for _ in range(400 if ctx.tier == 'quick' else 5000):
        w = b':0.$.' + rand_wild(r, pool).replace(b'.', b'').replace(b':', b'')
        pat = b'^'
        for c in w:
            if c == 0x3A:
                pat += b':'
            elif c == 0x5E:
                pat += b'\\^'
            elif c == 0x23:
                pat += b'[^.]'
            elif c == 0x2A:
                pat += b'[^.]*'
            elif lower(c) != c or (97 <= c <= 122):
                pat += b'[' + bytes([c & ~32 if 97 <= c <= 122 else c, c | 32]) + b']'
            else:
                pat += b'[' + bytes([c]) + b']'
        pat += b'$'
        s = b':0.$.' + (r.choice(pool) if r.chance(1, 2) else rand_name(r))
        ere_reqs.append('ere %s %s' % (pat.hex(), s.hex()))

    def cmp_ere(rq, impl_line, model_line):
        ctx.case(rq, True)
        ctx.traces += 1
        if impl_line != model_line:
            ctx.disagree('ere', 'ERE %r on %r: glibc %s model %s' % (bytes.fromhex(rq.split()[1]), bytes.fromhex(rq.split()[2]), impl_line, model_line), {'request': rq})
    ctx.pair('ere', ere_reqs, cmp_ere)

    # (3) end-to-end info / type
    cases = []
    for k in range(20 if ctx.tier == 'quick' else 120):
        used = set()
        names = []
        files = []
        pos = 2
        for j in range(r.range(3, 20)):
            for _ in range(50):
                nm = rand_name(r, r.range(1, 7))
                d = r.choice(b'$$$AaBb')
                if (chr(d).lower(), nm.lower()) not in used:
                    used.add((chr(d).lower(), nm.lower()))
                    break
            files.append(discs.AbsFile(d, nm, False, 0, 0, pos, b'%d' % j))
            pos += 1
        files.reverse()
        d = discs.AbsDisc('dfs', 40, 10)
        d.cats = [discs.AbsCat(b'C15', 0, 0, 400, files)]
        img = d.encode(lambda n: bytes(n))
        for _ in range(8):
            w = rand_wild(r, [f.name for f in files])
            cd = r.choice(b'$$Aa')
            cases.append(vlib.Case('d%d' % k, {'d.ssd': img}, ['--file', '@d.ssd', '--dir', chr(cd), 'info', w], meta={'kind': 'info', 'w': w, 'dir': cd, 'files': files}))
        for f in files[:4]:
            for variant in (f.name, f.name.swapcase(), f.name + b'x'):
                dd = bytes([f.dir]).swapcase() if r.chance(1, 2) else bytes([f.dir])
                cases.append(vlib.Case('d%d' % k, {'d.ssd': img}, ['--file', '@d.ssd', 'type', b':0.' + dd + b'.' + variant],
                                       meta={'kind': 'type', 'file': f, 'asked': (dd, variant), 'files': files}))
    # names a careless case-fold would identify (0x40/0x60, 0x5B-0x5E/0x7B-0x7E, 0x5F/0x7F): every name reaches its own file,
    # the other member of the pair is a different file or does not exist
    for (present, label) in (([b'TAB[', b'TAB{', b'A^B', b'A~B', b'X@', b'X`', b'P\\Q', b'P|Q', b'E]', b'E}', b'_U', b'\x7fU'], 'both'),
                             ([b'TAB[', b'A^B', b'X@', b'P\\Q', b'E]', b'_U'], 'lower-half'), ([b'TAB{', b'A~B', b'X`', b'P|Q', b'E}', b'\x7fU'], 'upper-half')):
        files = [discs.AbsFile(0x24, nm, False, 0, 0, 2 + j, b'own-%d-' % j + nm) for j, nm in enumerate(present)]
        files.reverse()
        d = discs.AbsDisc('dfs', 40, 10)
        d.cats = [discs.AbsCat(b'FOLD', 0, 0, 400, files)]
        img = d.encode(lambda n: bytes(n))
        for nm in [b'TAB[', b'TAB{', b'A^B', b'A~B', b'X@', b'X`', b'P\\Q', b'P|Q', b'E]', b'E}', b'_U', b'\x7fU']:
            cases.append(vlib.Case('fold-' + label, {'d.ssd': img}, ['--file', '@d.ssd', 'type', b':0.$.' + nm],
                                   meta={'kind': 'type', 'file': None, 'asked': (b'$', nm), 'files': files}))
    # Opus DDOS: two volumes with different files; --drive with a letter, names with and without :drive
    for k in range(8 if ctx.tier == 'quick' else 40):
        d = discs.AbsDisc('opus', 40, 18)
        fa = [discs.AbsFile(0x24, b'BOTH', False, 0, 0, 0, b'in-A'), discs.AbsFile(0x24, b'ONLYA', False, 0, 0, 1, b'only-A')]
        fb = [discs.AbsFile(0x24, b'BOTH', False, 0, 0, 0, b'in-B'), discs.AbsFile(0x24, b'ONLYB', False, 0, 0, 1, b'only-B')]
        fa.reverse(); fb.reverse()
        d.vols[0] = (1, discs.AbsCat(b'VA', 0, 0, 342, fa))
        d.vols[1] = (20, discs.AbsCat(b'VB', 0, 0, 360, fb))
        img = d.encode(lambda n: bytes(n))
        expect = {'A': {b'BOTH': b'in-A', b'ONLYA': b'only-A'}, 'B': {b'BOTH': b'in-B', b'ONLYB': b'only-B'}}
        for drive in ('0', '0A', '0B'):
            dflt = drive[1:] or 'A'
            for prefix, vol in ((b'', dflt), (b':0.', 'A'), (b':0A.', 'A'), (b':0B.', 'B'), (b':0.$.', 'A'), (b':0B.$.', 'B')):
                for nm in (b'BOTH', b'ONLYA', b'ONLYB'):
                    cases.append(vlib.Case('o%d' % k, {'o.sdd': img}, ['--file', '@o.sdd', '--drive', drive, 'type', prefix + nm],
                                           meta={'kind': 'opus-type', 'want': expect[vol].get(nm), 'asked': (drive, prefix + nm)}))
            for w, vol in ((b'*', dflt), (b':0.*', 'A'), (b':0B.*', 'B'), (b':0A.$.*', 'A')):
                cases.append(vlib.Case('o%d' % k, {'o.sdd': img}, ['--file', '@o.sdd', '--drive', drive, 'info', w],
                                       meta={'kind': 'opus-info', 'want': sorted(expect[vol]), 'asked': (drive, w)}))
    for c_ in cases:
        c_.literal_at = True        # wildcards and names may begin with '@'
    vlib.run_cases(cases, impl['dfs'])
    for c in cases:
        common.compare_model(ctx, c, 'e2e-' + c.meta['kind'])
        if c.meta['kind'].startswith('opus-'):
            ctx.oracle_cases += 1
            ctx.case((c.tag, tuple(c.real_argv[2:])), True)
            if common.crash_violation(ctx, c):
                continue
            mm = c.meta
            if mm['kind'] == 'opus-type':
                got = c.impl['out'] if c.impl['exit'] == 0 else None
                if got != mm['want']:
                    ctx.violation('opus-volume-lookup', '--drive %s type %s delivered %r, expected %r' % (mm['asked'][0], mm['asked'][1].decode(), got, mm['want']), common.replay_of(c))
            else:
                got = sorted(l[2:9].rstrip(b' ') for l in c.impl['out'].split(b'\n') if l)
                if got != mm['want']:
                    ctx.violation('opus-volume-info', '--drive %s info %s listed %s, expected %s' % (mm['asked'][0], mm['asked'][1].decode(), got, mm['want']), common.replay_of(c))
            continue
        m = c.meta
        i = c.impl
        ctx.oracle_cases += 1
        ctx.case((c.tag, tuple(c.real_argv[2:])), True)
        if common.crash_violation(ctx, c):
            continue
        if m['kind'] == 'info':
            full = qualify_wild(b'0', m['dir'], m['w'])
            if full is None:
                if i['exit'] == 0:
                    ctx.violation('invalid-wildcard-accepted', 'info accepted the malformed wildcard %r' % m['w'], common.replay_of(c))
                continue
            if not full.startswith(b':0.'):
                continue
            want = [f for f in m['files'] if wild_match(full, b':0.' + bytes([f.dir]) + b'.' + f.name)]
            got = [l[:9].rstrip(b' ') for l in i['out'].split(b'\n') if l]
            wantn = [bytes([f.dir]) + b'.' + f.name for f in want]
            if i['exit'] != 0 or got != wantn:
                ctx.violation('info-selection', 'info %r --dir %s selected %s; documented semantics select %s' % (m['w'].decode('latin-1'), chr(m['dir']), got[:6], wantn[:6]), common.replay_of(c))
        else:
            dd, nm = m['asked']
            exists = any(lower(f.dir) == lower(dd[0]) and bytes(map(lower, f.name)) == bytes(map(lower, nm)) for f in m['files'])
            if exists and i['exit'] == 0:
                owner = [f for f in m['files'] if lower(f.dir) == lower(dd[0]) and bytes(map(lower, f.name)) == bytes(map(lower, nm))][0]
                if i['out'] != owner.body.replace(b'\r', b'\n'):
                    ctx.violation('type-wrong-file', 'type :0.%s.%s delivered %r, the file of that name holds %r' % (dd.decode('latin-1'), nm.decode('latin-1'), i['out'][:30], owner.body[:30]),
                                  common.replay_of(c))
            if exists != (i['exit'] == 0):
                ctx.violation('type-lookup', 'type :0.%s.%s: exit %d but the file %s' % (dd.decode('latin-1'), nm.decode('latin-1'), i['exit'], 'exists' if exists else 'does not exist'), common.replay_of(c))


def replay(ctx, rp):
    print(rp.get('what'))
