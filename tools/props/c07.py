"""C07 — dfs fails cleanly on arbitrary image files and command lines."""
import gzip
import os

import vlib
from gen import discs, flux
from props import common

LEAN_MODULE = 'Beeb.Props.C07'
LEAVES = '*'
RULE = ('image files of every supported extension (ssd sdd dsd ddd mmb hfe mfm and .gz of each): random bytes, mutated-valid images (catalogue bytes, Opus table, '
        'HFE/HxC headers and track lists), truncation at structure boundaries, hostile header fields (0, 1, max-1, max), valid flux images with damaged tracks, '
        'x all commands x argument strings from a grammar (numbers incl. negative/huge, letters, empty) x --verbose, through the ASan+UBSan builds with assertions on '
        'and with NDEBUG, 20 s timeout; expected: exit 0/1/2, no signal/abort/sanitizer report, stderr non-empty when the status is non-zero; stdout/status compared with '
        'the Lean model. Non-trivial = image that is not a valid disc or command line with an unusual argument.')
ASSUMPTIONS = ['memory safety of library code (libstdc++, zlib, getopt_long) and the heap is exercised by the sanitizer runs, not proved',
               'promptness is measured (20 s limit), the theorem gives termination of the model only']

CMDS = [['cat'], ['cat', '0'], ['info', '*'], ['info', '#.*'], ['free'], ['space'], ['space', '0', '2'], ['sector-map'], ['show-titles'], ['show-titles', '0', '5'],
        ['type', '$.A'], ['type', '--binary', 'A'], ['list', 'A'], ['dump', 'A'], ['dump-sector', '0', '0', '0'], ['dump-sector', '0', '1', '2'],
        ['extract-files', '@out'], ['extract-unused', '@out'], ['help']]
ODD_ARGS = ['', '-1', '0', '1', '2', '3', '4', '99', '255', '256', '65535', '65536', '4294967295', '4294967296', '9223372036854775807', '9223372036854775808',
            '99999999999999999999999', '0A', '0H', '0I', '0a', ' 0', '0 ', '+0', '0x1', 'A', ':0.$.A', ':0', ':.', ':0A.$.A', '*', '#', '^', '$.', '.', '..', 'x' * 300]


def mutate(r, data, region=None):
    d = bytearray(data)
    n = len(d)
    if n == 0:
        return bytes(r.bytes(r.range(1, 64)))
    lo, hi = region or (0, min(n, 5000))
    for _ in range(r.range(1, 6)):
        k = r.below(6)
        p = r.range(lo, max(lo, min(hi, n) - 1))
        if k == 0:
            d[p] = r.below(256)
        elif k == 1:
            d[p] = r.choice([0, 1, 0x7F, 0x80, 0xFE, 0xFF])
        elif k == 2:
            d[p] ^= 1 << r.below(8)
        elif k == 3:
            d = d[:p]
            n = len(d)
            if n == 0:
                break
        elif k == 4:
            d[p:p] = r.bytes(r.range(1, 8))
        else:
            d[p:p + 4] = r.choice([b'\0\0\0\0', b'\xFF\xFF\xFF\xFF', b'\xFF\xFF\xFF\x7F', b'\1\0\0\0'])
    return bytes(d)


def base_images(r):
    out = []
    for variant in ('dfs', 'wdfs', 'opus'):
        d = discs.gen_disc(r, variant=variant, max_files=4)
        for (label, origin, vlen, cats) in d.volumes():
            if cats[0].files:
                cats[0].files[-1].name = b'A'
                cats[0].files[-1].dir = 0x24
        out.append(('x' + d.extension(), d.encode(discs.filler(r)), (0, 4700)))
    # two-sided interleaved
    d = discs.gen_disc(r, variant='dfs', geom=(40, 10), max_files=3)
    s0 = d.encode(lambda n: bytes(n))
    il = bytearray()
    for t in range(40):
        il += s0[t * 2560:(t + 1) * 2560] * 2
    out.append(('x.dsd', bytes(il), (0, 8000)))
    # mmb (small: index + 2 slots)
    idx = bytearray(8192)
    for sl in range(511):
        idx[16 * (sl + 1) + 15] = 0xF0
    idx[16 + 15] = 0x0F
    idx[32 + 15] = 0x00
    d = discs.gen_disc(r, variant='dfs', geom=(80, 10), max_files=3)
    out.append(('x.mmb', bytes(idx) + d.encode(lambda n: bytes(n)) + d.encode(lambda n: bytes(n)), (0, 9000)))
    # flux
    d = discs.gen_disc(r, variant='dfs', geom=(40, 10), max_files=3)
    img = d.encode(lambda n: bytes(n))
    trs = flux.tracks_of_image(img, 40, 10, 1, False)
    out.append(('x.hfe', flux.hfe_image(trs, 1, True), (0, 1100)))
    d = discs.gen_disc(r, variant='dfs', geom=(40, 18), max_files=3)
    img = d.encode(lambda n: bytes(n))
    trs = flux.tracks_of_image(img, 40, 18, 1, True)
    out.append(('x.mfm', flux.hxcmfm_image(trs, 1), (0, 0x13 + 11 * 40 + 64)))
    out.append(('y.hfe', flux.hfe_image(trs, 1, False, v3=True, opcode_rng=r.fork(), opcode_density=60), (0, 1100)))
    return out


def run(ctx):
    r = ctx.rng
    bases = base_images(r)
    n = 12 if ctx.tier == 'quick' else 150
    raw_cases = []
    for (name, data, region) in bases:
        ext = name[name.index('.'):]
        variants = [(name, data, 'valid')]
        for k in range(n):
            style = r.below(7)
            if style == 0:
                variants.append(('r%d%s' % (k, ext), r.bytes(r.choice([0, 1, 18, 255, 256, 511, 512, 513, 1024, 4608, 5000])), 'random'))
            elif style == 1:
                cut = r.choice([0, 1, 7, 18, 19, 255, 256, 511, 512, 513, 516, 1023, 1024, 4096, 4352, 4608, r.below(len(data))])
                variants.append(('t%d%s' % (k, ext), data[:cut], 'truncated'))
            elif style == 2:
                variants.append(('d%d%s' % (k, ext), mutate(r, data, (region[1], len(data))), 'data-damage'))
            else:
                variants.append(('m%d%s' % (k, ext), mutate(r, data, region), 'header-mutation'))
        for (nm, dat, kind) in variants:
            cmds = CMDS if (ctx.tier == 'thorough' and kind == 'valid') else [CMDS[0]] + r.shuffle(CMDS[1:])[:3]
            for cmd in cmds:
                argv = list(cmd)
                if r.chance(1, 5) and len(argv) > 1:
                    argv[r.range(1, len(argv) - 1)] = r.choice(ODD_ARGS)
                pre = []
                if r.chance(1, 6):
                    pre += ['--verbose']
                if r.chance(1, 8):
                    pre += [r.choice(['--drive', '--dir', '--ui']), r.choice(ODD_ARGS + ['acorn', 'Opus', '$', 'A'])]
                if r.chance(1, 10):
                    pre += [r.choice(['--bogus', '-x', '--d', '--dr', '--file', '--', '--help', '--show-config', '--drive-first'])]
                gz = r.chance(1, 6)
                fname = nm + ('.gz' if gz else '')
                content = gzip.compress(dat) if gz else dat
                if gz and r.chance(1, 3):
                    content = mutate(r, content, (0, len(content)))
                raw_cases.append((fname, content, pre + ['--file', '@' + fname] + argv, kind + ('-gz' if gz else ''), ext))
    # deterministic header values: every combination of the format bits of sector 1 byte 6 on a valid sector dump,
    # and the count/encoding fields of the flux container headers
    for (bname2, bdata2, _) in bases:
        ext2 = bname2[bname2.index('.'):]
        if ext2 in ('.ssd', '.sdd', '.dsd'):
            for bits in range(16):
                b = bytearray(bdata2)
                b[256 + 6] = (b[256 + 6] & 0xF0) | bits
                for cmd in (['cat'], ['info', '*.*'], ['free']):
                    raw_cases.append(('b%d%s' % (bits, ext2), bytes(b), ['--file', '@b%d%s' % (bits, ext2)] + cmd, 'format-bits', ext2))
        if ext2 in ('.ssd', '.sdd', '.dsd'):
            # conflicting markers: the HDFS bit together with an invalid first catalogue and/or the Watford recognition bytes
            for bits in (8, 12, 0, 4):
                for (count, aa, tot_hi) in ((0x0B, True, None), (0xF9, True, None), (None, True, 0), (0x08, True, None), (0x0B, False, None), (None, True, None)):
                    b = bytearray(bdata2)
                    b[256 + 6] = (b[256 + 6] & 0xF0) | bits
                    if count is not None:
                        b[256 + 5] = count
                    if tot_hi is not None:
                        b[256 + 6] &= 0xFC
                        b[256 + 7] = 1
                    if aa:
                        b[512:520] = b'\xAA' * 8
                    nm = 'k%d_%s_%d_%s%s' % (bits, count, aa, tot_hi, ext2)
                    for cmd in (['cat'], ['info', '*.*'], ['sector-map'], ['free']):
                        raw_cases.append((nm, bytes(b), ['--file', '@' + nm] + cmd, 'conflicting-markers', ext2))
        if ext2 == '.hfe':
            for (off, vals) in ((9, [0, 1, 255]), (10, [0, 2, 3, 255]), (11, [1, 3, 4, 0xFF]), (22, [0, 1]), (23, [0, 1, 2, 3, 0xFF]), (8, [1, 255]), (18, [0, 0xFF]), (19, [0xFF])):
                for v in vals:
                    b = bytearray(bdata2)
                    b[off] = v
                    raw_cases.append(('h%d_%d.hfe' % (off, v), bytes(b), ['--file', '@h%d_%d.hfe' % (off, v), 'cat'], 'header-field', ext2))
        if ext2 == '.mfm':
            for (off, vals) in ((7, [0, 1, 255]), (8, [1, 255]), (9, [0, 2, 3, 255]), (10, [0, 1, 255]), (11, [0, 255]), (12, [0, 1, 255]), (13, [0, 255]), (14, [0, 3, 5]), (15, [0, 0x12, 0xFF]), (18, [0x80, 0xFF])):
                for v in vals:
                    b = bytearray(bdata2)
                    b[off] = v
                    raw_cases.append(('x%d_%d.mfm' % (off, v), bytes(b), ['--file', '@x%d_%d.mfm' % (off, v), 'cat'], 'header-field', ext2))
        if ext2 == '.mfm':
            # rpm / bit rate all-zero and all-ones, alone and together with a track entry that declares a huge size
            for (rpm, rate) in ((b'\0\0', b'\0\0'), (b'\xff\xff', b'\xff\xff'), (b'\1\0', b'\xff\xff'), (b'\xff\xff', b'\1\0'), (b'\0\0', b'\xfa\0'), (b'\x2c\1', b'\0\0')):
                for size in (None, 0x40000000, 0xFFFFFFFF, 0x00100001):
                    b = bytearray(bdata2)
                    b[10:12] = rpm
                    b[12:14] = rate
                    if size is not None:
                        b[0x13 + 3:0x13 + 7] = size.to_bytes(4, 'little')
                    nm = 'q%s_%s_%s.mfm' % (rpm.hex(), rate.hex(), size)
                    raw_cases.append((nm, bytes(b), ['--file', '@' + nm, 'cat'], 'header-field', ext2))
    # catalogues whose entries overrun the recorded sector count or the disc, and degenerate sector counts, under every command
    for (tot, start, length) in ((400, 399, 0x300), (400, 400, 1), (400, 1023, 0x3FFFF), (10, 398, 0x200), (0, 2, 0x100), (2, 2, 1), (3, 2, 0x3FFFF), (1023, 1022, 0x200)):
        for variant in ('dfs', 'wdfs'):
            f0 = discs.AbsFile(0x24, b'A', False, 0, 0, start, b'', length=length)
            f1 = discs.AbsFile(0x24, b'B', False, 0, 0, 5, b'xyz')
            d = discs.AbsDisc(variant, 40, 10)
            d.cats = [discs.AbsCat(b'OVERRUN', 0, 0, tot, [f0, f1])] + ([discs.AbsCat(b'', 0, 0, tot, [])] if variant == 'wdfs' else [])
            img = d.encode(lambda n: bytes(n))
            for hd in (0, 8):     # also with the HDFS bit set
                b = bytearray(img)
                b[256 + 6] |= hd
                nm = 'o%d_%d_%d_%d%s.ssd' % (tot, start, length, hd, variant)
                for cmd in CMDS:
                    if cmd[0] == 'help':
                        continue
                    raw_cases.append((nm, bytes(b), ['--file', '@' + nm] + cmd, 'catalogue-overrun', '.ssd'))
    # flux tracks whose sectors are not 256 bytes long (size codes 0, 2, 3), in every position of the track
    for (nm, mfm) in (('z.hfe', False), ('z.mfm', True), ('w.hfe', True)):
        for sizes in ([1024, 256, 256], [256, 512, 256], [256, 256, 128], [1024], [512, 512], [128, 256], [128], [256, 1024]):
            trs = []
            for t in range(2):
                secs = {rec: r.bytes(n) for rec, n in enumerate(sizes)}
                lay = flux.TrackLayout(mfm=mfm)
                trs.append([flux.mfm_track(t, 0, secs, lay) if mfm else flux.fm_track(t, 0, secs, lay)])
            img = flux.hxcmfm_image(trs, 1) if nm.endswith('.mfm') else flux.hfe_image(trs, 1, not mfm)
            for cmd in (['cat'], ['dump-sector', '0', '0', '0'], ['dump-sector', '0', '1', str(len(sizes) - 1)]):
                raw_cases.append((nm, img, ['--file', '@' + nm] + cmd, 'odd-sector-size', nm[nm.index('.'):]))
    # every odd argument in every argument position, with and without an image
    (bname, bdata, _) = bases[0]
    for odd in ODD_ARGS:
        for shape in (['--drive', odd, 'cat'], ['cat', odd], ['free', odd], ['space', odd], ['space', '0', odd], ['show-titles', odd], ['sector-map', odd],
                      ['dump-sector', odd, '0', '0'], ['dump-sector', '0', odd, '0'], ['dump-sector', '0', '0', odd], ['info', odd], ['type', odd], ['--dir', odd, 'cat'],
                      ['--ui', odd, 'cat'], ['extract-unused', odd], ['--drive', odd + 'A', 'info', '*.*']):
            if ctx.tier == 'quick' and not r.chance(1, 2):
                continue
            pre = ['--verbose'] if r.chance(1, 4) else []
            if shape[0].startswith('--'):
                argv = pre + (shape[:2] + ['--file', '@' + bname] + shape[2:] if r.chance(1, 2) else ['--file', '@' + bname] + shape)
            else:
                argv = pre + ['--file', '@' + bname] + shape
            raw_cases.append((bname, bdata, argv, 'odd-argument', bname[bname.index('.'):]))
    # wildcards made of regular-expression metacharacters that *do* select a file (a match makes the regex library report sub-matches:
    # whatever holds them must be large enough for however many '(' the wildcard contains), by info and by name lookup
    metas = b'()[]{}+|^$\\?-'
    mfiles = [discs.AbsFile(ch, bytes([ch]) * 7, False, 0, 0, 2 + j, b'META%d\r' % j) for j, ch in enumerate(metas)]
    mfiles.reverse()
    md = discs.AbsDisc('dfs', 40, 10)
    md.cats = [discs.AbsCat(b'METAS', 0, 0, 400, mfiles)]
    mimg = md.encode(lambda n: bytes(n))
    for ch in metas:
        c1 = bytes([ch])
        for w in (c1 + b'.' + c1 * 7, b':0.' + c1 + b'.' + c1 * 7, b'#.' + c1 * 3 + b'*', c1 + b'.' + c1 * 3 + b'####', b'*.' + c1 * 7):
            raw_cases.append(('meta.ssd', mimg, ['--file', '@meta.ssd', 'info', w], 'metacharacter-wildcard', '.ssd'))
        raw_cases.append(('meta.ssd', mimg, ['--file', '@meta.ssd', 'type', c1 + b'.' + c1 * 7], 'metacharacter-wildcard', '.ssd'))
        raw_cases.append(('meta.ssd.gz', gzip.compress(mimg), ['--file', '@meta.ssd.gz', '--dir', c1, 'info', c1 * 7], 'metacharacter-wildcard', '.ssd'))
    # command lines without any image, odd option usage
    for _ in range(20 if ctx.tier == 'quick' else 300):
        argv = [r.choice(['cat', 'info', 'free', 'space', 'show-titles', 'dump-sector', 'sector-map', 'type', 'extract-files', 'bogus', 'help', '--help', '--file', '--drive', '-', '--'])] + \
               [r.choice(ODD_ARGS) for _ in range(r.below(4))]
        raw_cases.append((None, None, argv, 'no-image', ''))
    # trailing garbage / damaged trailer after a valid gzip stream (the length field ISIZE is the last four bytes)
    (gname, gdata, _) = bases[0]
    z = gzip.compress(gdata)
    for tail_ in (b'\xff\xff\xff\x7f', b'\xff\xff\xff\xff', b'\0\0\0\x40junk', r.bytes(9)):
        raw_cases.append((gname + '.gz', z + tail_, ['--file', '@' + gname + '.gz', 'cat'], 'valid-gz', gname[gname.index('.'):]))
        raw_cases.append((gname + '.gz', z[:-4] + tail_[:4], ['--file', '@' + gname + '.gz', 'cat'], 'truncated-gz', gname[gname.index('.'):]))
    run_memory_limited(ctx, raw_cases)
    for kind_build in ('asan', 'asan-ndebug'):
        impl = ctx.build(kind_build)
        cases = []
        for (fname, content, argv, kind, ext) in raw_cases:
            files = {fname: content} if fname else {}
            cases.append(vlib.Case(kind, files, argv, ndebug=(kind_build == 'asan-ndebug'), dest='out' if '@out' in argv else None,
                                   meta={'kind': kind, 'ext': ext, 'build': kind_build, 'crashkey': None}))
        vlib.run_cases(cases, impl['dfs'], timeout=20)
        for c in cases:
            m = c.meta
            i = c.impl
            odd_dest = c.real_argv and any(a in (b'extract-files', b'extract-unused') for a in c.real_argv) and '@out' not in c.argv
            if not odd_dest:     # the host file system (does the destination exist?) is not part of the model
                common.compare_model(ctx, c, 'e2e-hostile-' + kind_build, compare_files=(m['kind'] == 'valid'))
            ctx.oracle_cases += 1
            ctx.count('kind.' + m['kind'])
            ctx.count('ext' + (m['ext'] or '.none'))
            ctx.case((kind_build, tuple(c.real_argv[-4:]), tuple(sorted((k, hash(v)) for k, v in c.files.items()))), m['kind'] != 'valid',
                     sample={'build': kind_build, 'kind': m['kind'], 'argv': [a.decode('latin-1')[-40:] for a in c.real_argv][-5:], 'exit': i['exit']})
            rp = common.replay_of(c)
            if i['exit'] == -999:
                ctx.violation('timeout:%s' % m['ext'], 'dfs did not terminate within 20 s (%s image, %s)' % (m['kind'], ' '.join(a.decode('latin-1') for a in c.real_argv[-3:])), rp)
                continue
            if vlib.crashed(i['exit'], i['err']):
                line = common.first_error_line(i['err'])
                site = crash_site(i['err'])
                ctx.violation('crash:%s' % site, 'dfs (%s build) ended by signal/abort/sanitizer report on a %s %s image: rc=%d %s' % (
                    'NDEBUG' if c.ndebug else 'assertions-on', m['kind'], m['ext'], i['exit'], line), rp)
                continue
            if i['exit'] not in (0, 1, 2):
                ctx.violation('exit-status', 'exit status %d' % i['exit'], rp)
            elif i['exit'] != 0 and not i['err']:
                ctx.violation('silent-failure:%s' % next((a.decode('latin-1') for a in c.real_argv if a.decode('latin-1') in [x[0] for x in CMDS]), '?'),
                              'exit status %d with nothing on stderr (%s)' % (i['exit'], ' '.join(a.decode('latin-1')[-30:] for a in c.real_argv[-3:])), rp)


def run_memory_limited(ctx, raw_cases):
    """The same hostile inputs through the plain release build with 768 MiB of address space: no legitimate run needs that
    much (compressed images are inflated to a temporary file), so running out of memory means an allocation was sized by the file."""
    import resource
    import subprocess
    import tempfile
    import shutil
    import concurrent.futures as cf
    impl = ctx.build('rel')
    picked = [rc for rc in raw_cases if rc[0] and (rc[3].startswith(('header-field', 'header-mutation', 'truncated', 'random')) or rc[3].endswith('-gz'))]
    root = tempfile.mkdtemp(prefix='beebverif-c07m-')
    limit = 768 * 1024 * 1024

    def one(item):
        k, (fname, content, argv, kind, ext) = item
        d = os.path.join(root, 'm%d' % k)
        os.makedirs(os.path.join(d, 'out'))
        with open(os.path.join(d, fname), 'wb') as f:
            f.write(content)
        av = [os.path.join(d, a[1:]) if a.startswith('@') else a for a in argv]
        try:
            p = subprocess.run([impl['dfs']] + av, cwd=d, capture_output=True, timeout=60,
                               preexec_fn=lambda: resource.setrlimit(resource.RLIMIT_AS, (limit, limit)))
            return (fname, content, av, kind, p.returncode, p.stderr)
        except subprocess.TimeoutExpired:
            return (fname, content, av, kind, -999, b'')
    try:
        with cf.ThreadPoolExecutor(max_workers=16) as ex:
            results = list(ex.map(one, enumerate(picked)))
    finally:
        shutil.rmtree(root, ignore_errors=True)
    for (fname, content, av, kind, rc, err) in results:
        ctx.oracle_cases += 1
        ctx.count('memory-limited.' + kind)
        ctx.case(('mem', fname, tuple(av[-2:]), hash(content)), True)
        low = err.lower()
        if b'bad_alloc' in low or b'cannot allocate' in low or b'out of memory' in low or rc in (-6, -9, -11, 134, 137, 139):
            ctx.violation('allocation-sized-by-file:%s' % fname.split('.', 1)[-1],
                          'with 768 MiB of address space dfs ran out of memory on a %d-byte %s image (rc=%d, stderr %r): an allocation is driven by a size declared in the file' % (
                              len(content), kind, rc, err[-160:]),
                          {'argv': av, 'files': {fname: content.hex()[:400000]}, 'rlimit_as': limit, 'exit': rc, 'stderr': err[-400:].decode('latin-1')})


def crash_site(err):
    """a stable key for a crash: the first frame inside /repo, or the assertion text"""
    import re
    s = err.decode('latin-1', 'replace')
    m = re.search(r"Assertion `([^']*)' failed", s)
    if m:
        return 'assert(' + m.group(1)[:60] + ')'
    m = re.search(r'(/repo/[\w/.]+:\d+)', s)
    if m:
        return m.group(1).replace('/repo/', '')
    m = re.search(r'terminate called[^\n]*\n[^\n]*', s)
    if m:
        return ' '.join(m.group(0).split())[:80]
    return 'unknown'


def replay(ctx, rp):
    print(rp.get('what'))
