"""C13 — file-system variant and geometry are identified from the on-disc markers only."""
import os
import shutil
import tempfile

import vlib
from gen import discs
from props import common

LEAN_MODULE = 'Beeb.Props.C13'
LEAVES = ['watford_start_sector', 'watford_sector2_in_use', 'get_dfs_sector_count', 'get_hdfs_sector_count', 'geometry_total_sectors', 'smells_like_hdfs']
RULE = ('well-formed Acorn / Watford / Opus discs x geometries x container extensions (.ssd .sdd .dsd .ddd) x marker-imitating bodies (AA x8 at sector 2 inside a file '
        'that starts there, 18 at byte 3 of a body covering sector 16, catalogue-like sectors at side-2 offsets) and Watford discs with files at 0x102/0x202/0x302; '
        'the real identify_image/identify_file_system (in-process) and the Lean model are compared with the variant the markers define, and each disc is re-encoded '
        'with different file bodies to check that identification and the cat listing do not change. Non-trivial = disc with at least one file.')
ASSUMPTIONS = ['expected variant = the markers as the property states them (tools/props/c13.py expected_variant)']


def expected_variant(d, img):
    """what the on-disc markers define"""
    if d.variant == 'opus':
        return 'Opus'
    s1 = img[256:512]
    if s1[6] & 8:
        return 'HDFS'
    first_cat_starts = [f.start for f in d.cats[0].files]
    if img[512:520] == b'\xAA' * 8 and 2 not in first_cat_starts:
        return 'WDFS'
    return 'DFS'


def run(ctx):
    r = ctx.rng
    tmp = tempfile.mkdtemp(prefix='beebverif-c13-')
    try:
        n = 132 if ctx.tier == 'quick' else 800
        items = []
        for k in range(n):
            kinds = ['plain', 'aa-file-at-2', 'watford-hi-start', 'watford-large', 'forge-18', 'side2-catalogue', 'opus', 'aa-empty-file-at-2', 'forge-opus-table', 'dfs-large', 'plain']
            kind = kinds[k % len(kinds)]      # every kind in every run, whatever the seed
            used = set()
            if kind == 'aa-file-at-2':
                body = b'\xAA' * 8 + r.bytes(r.range(0, 600))
                f = discs.AbsFile(0x24, b'AA', False, 0, 0, 2, body)
                more = discs.layout_files(r, [30, 0, 29, 1, 30, 2, 3][(k // len(kinds)) % 7], 2 + f.sectors(), 400, used)     # 30 more: the sector-2 file sits in the 31st (last) slot
                files = [f] + more
                files.reverse()
                d = discs.AbsDisc('dfs', r.choice([40, 80]), 10)
                d.cats = [discs.AbsCat(b'AAFILE', 0, 0, min(d.side_sectors(), 400 if d.tracks == 40 else 800), files)]
            elif kind == 'aa-empty-file-at-2':
                # an empty file catalogued at sector 2 (it owns no sector) over stale Watford recognition bytes: still an Acorn disc
                f = discs.AbsFile(0x24, b'EMPTY', False, 0, 0, 2, b'')
                more = discs.layout_files(r, r.choice([0, 1, 3]), 3, 400, used)
                files = [f] + more
                files.reverse()
                d = discs.AbsDisc('dfs', r.choice([40, 80]), 10)
                d.cats = [discs.AbsCat(b'AAEMPTY', 0, 0, min(d.side_sectors(), 400 if d.tracks == 40 else 800), files)]
                d.stale = {2: b'\xAA' * 8 + bytes(248)}
            elif kind == 'forge-opus-table':
                # a file over sector 16 imitating an Opus volume table: 720 sectors, 18 per track, 40 tracks, volume A at track 1,
                # the other slots pointing off the disc (track 255) or at track 0: inconsistent, so not an Opus disc
                d = discs.gen_disc(r, variant='dfs', geom=(40, 18), max_files=2, total=720)
                tbl = bytearray(256)
                tbl[1:5] = bytes([0x02, 0xD0, 18, 40])
                tbl[8] = 1
                junk = r.choice([255, 41, 200])        # off the disc: the table is inconsistent (an all-consistent table would make the disc an Opus disc)
                for sl in range(1, 8):
                    tbl[8 + 2 * sl] = junk if r.chance(2, 3) else 0
                tbl[8 + 2] = junk
                body = bytearray(r.bytes(16 * 256))
                body[14 * 256:15 * 256] = tbl
                f = discs.AbsFile(0x24, b'FORGE', False, 0, 0, 2, bytes(body))
                d.cats[0].files = [x for x in d.cats[0].files if x.start >= 18] + [f]
            elif kind == 'dfs-large':
                # an Acorn-style catalogue recording 1440 sectors (bit 10 of the count is bit 2 of sector 1 byte 6) without the Watford
                # marker; sometimes with a file at sector 2 that begins with the marker bytes: an Acorn disc either way
                d = discs.AbsDisc('dfs', 80, 18)
                fs_ = [discs.AbsFile(0x24, b'ONE', False, 0, 0, 2, (b'\xAA' * 8 if k % 2 else b'') + r.bytes(700)),
                       discs.AbsFile(0x24, b'TWO', False, 0, 0, 1100, r.bytes(300))]
                fs_.reverse()
                d.cats = [discs.AbsCat(b'BIGDFS', 0, 0, 1440, fs_)]
            elif kind == 'watford-hi-start':
                d = discs.AbsDisc('wdfs', 80, 18)
                st = r.choice([0x102, 0x202, 0x302])
                lo = [discs.AbsFile(0x24, b'HI', False, 0, 0, st, r.bytes(300)), discs.AbsFile(0x24, b'LO', False, 0, 0, 5, r.bytes(100))]
                hi = [discs.AbsFile(0x24, b'TOP', False, 0, 0, 0x3F0, r.bytes(100))]
                d.cats = [discs.AbsCat(b'WHI', 0, 0, 1023, lo), discs.AbsCat(b'', 0, 0, 1023, hi)]
            elif kind == 'watford-large':
                # Watford "large disc": 80 x 18 sectors, bit 10 of the sector count in bit 2 of sector 1 byte 6
                d = discs.AbsDisc('wdfs', 80, 18)
                lo = [discs.AbsFile(0x24, b'ONLY', False, 0, 0, r.choice([5, 300, 1000]), r.bytes(r.range(1, 600)))]
                d.cats = [discs.AbsCat(b'WLARGE', 0, 0, 1440, lo), discs.AbsCat(b'', 0, 0, 1440, [])]
            elif kind == 'forge-18':
                d = discs.gen_disc(r, variant=r.choice(['dfs', 'wdfs']), max_files=2)
                # a file covering sector 16 whose byte 3 there is 18 (but no complete Opus table)
                first = 4 if d.variant == 'wdfs' else 2
                body = bytearray(r.bytes((18 - first) * 256))
                body[(16 - first) * 256: (17 - first) * 256] = bytes([0, 2, 0xD0, 18]) + bytes(252)
                f = discs.AbsFile(0x24, b'FORGE', False, 0, 0, first, bytes(body))
                tot = d.cats[0].total
                d.cats[0].files = [x for x in d.cats[0].files if x.start >= 18] + [f]
                if d.variant == 'wdfs':
                    d.cats[1].files = [x for x in d.cats[1].files if x.start >= 18]
            elif kind == 'side2-catalogue':
                d = discs.AbsDisc('dfs', 80, 10)
                a, b = discs.AbsCat(b'FAKE', 0, 0, 400, []).sectors()
                f = discs.AbsFile(0x24, b'CATLIKE', False, 0, 0, r.choice([400, 10]), a + b)
                g = discs.AbsFile(0x24, b'LOW', False, 0, 0, 2, r.bytes(300))
                files = sorted([f, g], key=lambda x: -x.start)
                d.cats = [discs.AbsCat(b'S2', 0, 0, r.choice([800, 402]), files)]
            elif kind == 'opus':
                d = discs.gen_disc(r, variant='opus', max_files=3)
                # start sectors are relative to the volume: files of a volume that begin at (relative) sectors 2 and 16 say nothing about the disc's
                # sectors 2 and 16 - the disc is an Opus disc all the same
                lowest = min(d.vols)
                st_, cat_ = d.vols[lowest]
                if cat_.total >= 40:
                    cat_.files = [discs.AbsFile(0x24, b'AT16', False, 0, 0, 16, r.bytes(r.range(1, 600))), discs.AbsFile(0x24, b'AT2', False, 0, 0, 2, b'\xAA' * 8 + r.bytes(r.range(1, 3000)))]
            else:
                d = discs.gen_disc(r, max_files=4)
            fill = discs.filler(r)
            seedfill = r.next()
            img = d.encode(lambda nn, s=seedfill: vlib.Rng(s).bytes(nn) if s % 3 else bytes(nn))
            for sec_, bytes_ in getattr(d, 'stale', {}).items():
                img = img[:sec_ * 256] + bytes_ + img[sec_ * 256 + len(bytes_):]
            # the same disc with every file body replaced (same lengths), same unallocated space
            d2 = d
            saved = []
            for (_, _, _, f) in d.all_files():
                saved.append((f, f.body))
            for (f, body) in saved:
                keep = 8 if (kind == 'aa-file-at-2' and f.start == 2) else 0
                if kind in ('forge-18', 'forge-opus-table') and f.name == b'FORGE':
                    continue
                if kind == 'side2-catalogue' and f.name == b'CATLIKE':
                    continue
                f.body = body[:keep] + vlib.Rng(seedfill ^ 0x55).bytes(len(body) - keep)
            img2 = d.encode(lambda nn, s=seedfill: vlib.Rng(s).bytes(nn) if s % 3 else bytes(nn))
            for sec_, bytes_ in getattr(d, 'stale', {}).items():
                img2 = img2[:sec_ * 256] + bytes_ + img2[sec_ * 256 + len(bytes_):]
            for (f, body) in saved:
                f.body = body
            ext = d.extension()
            p1 = os.path.join(tmp, 'd%d%s' % (k, ext))
            p2 = os.path.join(tmp, 'e%d%s' % (k, ext))
            open(p1, 'wb').write(img)
            open(p2, 'wb').write(img2)
            items.append({'k': k, 'kind': kind, 'd': d, 'img': img, 'p1': p1, 'p2': p2, 'ext': ext})
            ctx.count('kind.' + kind)
            ctx.count('variant.' + d.variant)
        reqs = []
        for it in items:
            for p in (it['p1'], it['p2']):
                h = p.encode().hex()
                reqs.append(('file %s raw %s' % (h, p), None))
                reqs.append(('probe %s %s' % (h, h), (it, p)))
        impl = ctx.build('asan')
        lines_impl = [q for q, tag in reqs if tag is not None]
        ib, irc, ierr = vlib.run_lines(impl['harness'], lines_impl)
        mb, mrc, merr = vlib.run_lines(vlib.driver_path(), [q for q, _ in reqs])
        mb = [x for x, (q, tag) in zip(mb, reqs) if tag is not None]
        if mrc != 0 or len(mb) != len(lines_impl):
            ctx.proof_break('model driver failed on the probe stream', merr)
            return
        res = {}
        for j, (q, (it, p)) in enumerate([x for x in reqs if x[1] is not None]):
            if j >= len(ib):
                ctx.violation('crash:probe', 'identify_image crashed: %s' % ierr[-300:], {'request': q, 'file': p})
                break
            ctx.traces += 1
            if ib[j] != mb[j]:
                ctx.disagree('probe', '%s (%s): impl [%s] model [%s]' % (os.path.basename(p), it['kind'], ib[j], mb[j]), {'request': q, 'image_hex': it['img'].hex()[:4000]})
            res[p] = ib[j]
        cases = []
        for it in items:
            d = it['d']
            ctx.oracle_cases += 1
            nfiles = len(d.all_files())
            ctx.case((it['k'], it['kind']), nfiles > 0, sample={'kind': it['kind'], 'variant': d.variant, 'geometry': [d.tracks, d.spt], 'ext': it['ext'], 'probe': res.get(it['p1'])})
            got = res.get(it['p1'], '')
            want = expected_variant(d, it['img'])
            rp = {'image': it['p1'], 'image_hex': it['img'].hex() if len(it['img']) < 300000 else it['img'][:8192].hex(), 'kind': it['kind'], 'probe': got}
            fields = dict(x.split('=') for x in got.split() if '=' in x)
            if fields.get('fmt') != want:
                key = 'variant-%s-as-%s' % (want, fields.get('fmt', got))
                ctx.violation(key, '%s disc (%s) identified as %s' % (want, it['kind'], got), rp)
            else:
                # geometry large enough for the catalogue's sector count
                total = d.side_sectors() if d.variant == 'opus' else d.cats[0].total
                if int(fields['c']) * int(fields['s']) < total:
                    ctx.violation('geometry-too-small', 'geometry %s too small for %d catalogued sectors' % (got, total), rp)
            if res.get(it['p2']) != got:
                ctx.violation('body-dependent-identification', 'identification changed with the file bodies: %s vs %s (%s)' % (got, res.get(it['p2']), it['kind']), rp)
            for p, tag in ((it['p1'], 'a'), (it['p2'], 'b')):
                cases.append(vlib.Case('d%d' % it['k'], {'x' + it['ext']: open(p, 'rb').read()}, ['--file', '@x' + it['ext'], 'cat'], meta={'it': it, 'tag': tag}))
        vlib.run_cases(cases, impl['dfs'])
        for a, b in zip(cases[0::2], cases[1::2]):
            common.compare_model(ctx, a, 'e2e-cat')
            common.compare_model(ctx, b, 'e2e-cat')
            if common.crash_violation(ctx, a) or common.crash_violation(ctx, b):
                continue
            if a.impl['out'] != b.impl['out'] or a.impl['exit'] != b.impl['exit']:
                ctx.violation('body-dependent-listing', 'cat output changed with the file bodies (%s)' % a.meta['it']['kind'], common.replay_of(a))
        # two-sided images whose sides carry different variants: every surface is identified on its own markers
        mixed = []
        for (v0, v1) in (('dfs', 'wdfs'), ('wdfs', 'dfs'), ('wdfs', 'wdfs'), ('dfs', 'dfs')):
            sides = []
            for v in (v0, v1):
                for _ in range(50):
                    dd = discs.gen_disc(r, variant=v, geom=(80, 10), total=800, max_files=(40 if v == 'wdfs' else 6))
                    if v != 'wdfs' or (dd.cats[1].files and dd.cats[0].files):
                        break
                sides.append(dd)
            s0 = sides[0].encode(lambda nn: bytes(nn))
            s1 = sides[1].encode(lambda nn: bytes(nn))
            il = b''.join(s0[t * 2560:(t + 1) * 2560] + s1[t * 2560:(t + 1) * 2560] for t in range(80))
            for side, dd in enumerate(sides):
                mixed.append(vlib.Case('mixed-%s-%s' % (v0, v1), {'m.dsd': il}, ['--file', '@m.dsd', 'info', ':%d.*.*' % (2 * side)],
                                       meta={'want': len(dd.all_files()), 'variant': dd.variant, 'side': side, 'pair': (v0, v1)}))
        vlib.run_cases(mixed, impl['dfs'])
        for c in mixed:
            common.compare_model(ctx, c, 'e2e-mixed-sides')
            ctx.oracle_cases += 1
            ctx.count('mixed-sides.%s-%s' % c.meta['pair'])
            ctx.case(('mixed', c.meta['pair'], c.meta['side']), True, sample={'pair': list(c.meta['pair']), 'side': c.meta['side'], 'exit': c.impl['exit']})
            if common.crash_violation(ctx, c):
                continue
            shown = len([l for l in c.impl['out'].split(b'\n') if l.strip()])
            if c.impl['exit'] != 0 or shown != c.meta['want']:
                ctx.violation('mixed-sides:%s-on-side-%d' % (c.meta['variant'], c.meta['side']),
                              'a .dsd with %s on side 0 and %s on side 1: info on side %d lists %d files, its catalogue(s) hold %d (exit %d)' % (
                                  c.meta['pair'][0], c.meta['pair'][1], c.meta['side'], shown, c.meta['want'], c.impl['exit']), common.replay_of(c))
    finally:
        shutil.rmtree(tmp, ignore_errors=True)


def replay(ctx, rp):
    print(rp.get('what'))
