"""C14 — free, space, sector-map, extract-unused agree with the catalogue and each other."""
import os
import re
import sys

import vlib
from gen import discs
from props import common

LEAN_MODULE = 'Beeb.Props.C14'
LEAN_MODULES = ['Beeb.Props.C14', 'Beeb.Props.C14b']
LEAVES = ['file_length', 'start_sector', 'last_sector', 'catalog_sectors_for_format', 'data_sectors_reserved_for_catalog', 'max_file_count',
          'enum_Format_HDFS', 'enum_Format_DFS', 'enum_Format_WDFS', 'enum_Format_OpusDDOS']
RULE = ('non-overlapping layouts on Acorn/Watford/Opus catalogues (0..31/62 files, zero-length files next to other files, adjacent files, '
        'gaps before the first and after the last file, either Watford half empty, every Opus volume); the outputs of free, space, sector-map and '
        'extract-unused are parsed and compared with the abstract layout and with each other, and with the Lean model byte for byte. '
        'Non-trivial = disc with at least one file.')
ASSUMPTIONS = ['the abstract layout (tools/gen/discs.py) is the reading of the property: a file owns ceil(len/256) sectors from its start sector; zero-length files own none']


def expected(d, label, origin, vlen, cats):
    """(cat_sectors, total, owner map {sector: label or 'catalog'}, used, nfiles) for one volume, volume-relative sectors"""
    cat0 = cats[0]
    total = cat0.total
    files = [f for c in cats for f in c.files]
    catsec = 0 if d.variant == 'opus' else (4 if d.variant == 'wdfs' else 2)
    owner = {}
    for s in range(catsec):
        owner[s] = 'catalog'
    for f in files:
        for s in range(f.start, f.start + f.sectors()):
            owner[s] = f
    used = catsec
    for f in files:
        if f.sectors() > 0:
            used = max(used, f.start + f.sectors())
    # oracle-spec tie (Beeb.Spec.Layout): unallocated runs, owned sectors and `used` of this layout
    ext = sorted(((f.start, f.sectors()) for f in files if f.sectors() > 0))
    if all(ext[j][0] + ext[j][1] <= ext[j + 1][0] for j in range(len(ext) - 1)) and (not ext or (ext[0][0] >= catsec and ext[-1][0] + ext[-1][1] <= total)) and catsec <= total:
        runs, pos = [], catsec
        for (a, n) in ext:
            runs.append(a - pos)
            pos = a + n
        runs.append(total - pos)
        vlib.spec_tie('layout %d %d %s' % (catsec, total, ','.join('%d:%d' % e for e in ext) or '-'),
                      'runs=%s owned=%d used=%d' % (','.join(map(str, runs)), sum(n for _, n in ext), used))
        free_runs = [(b - a) for (a, b) in runs_of_free(owner, total, 0)]
        assert free_runs == [x for x in runs if x > 0], (free_runs, runs)
    return catsec, total, owner, used, len(files)


def runs_of_free(owner, total, lo=0):
    runs = []
    s = lo
    while s < total:
        if s not in owner:
            b = s
            while s < total and s not in owner:
                s += 1
            runs.append((b, s))
        else:
            s += 1
    return runs


def special_disc(r, kind):
    if kind == 'small-total':
        # the catalogue records fewer sectors than the medium has: every command goes by the catalogue's count
        return discs.gen_disc(r, variant=r.choice(['dfs', 'wdfs']), geom=(80, 10), total=r.choice([456, 410, 799]), max_files=3)
    """layouts aimed at the corner cases of the property"""
    used = set()
    if kind == 'wdfs-second-empty':
        files = discs.layout_files(r, r.range(1, 6), 4, 800, used)
        files.reverse()
        d = discs.AbsDisc('wdfs', 80, 10)
        d.cats = [discs.AbsCat(b'W2EMPTY', 1, 0, 800, files), discs.AbsCat(b'', 0, 0, 800, [])]
        return d
    if kind == 'wdfs-first-empty':
        files = discs.layout_files(r, r.range(1, 6), 4, 800, used)
        files.reverse()
        d = discs.AbsDisc('wdfs', 80, 10)
        d.cats = [discs.AbsCat(b'W1EMPTY', 1, 0, 800, []), discs.AbsCat(b'', 0, 0, 800, files)]
        return d
    if kind == 'wdfs-empty':
        d = discs.AbsDisc('wdfs', 80, 10)
        d.cats = [discs.AbsCat(b'WEMPTY', 1, 0, 800, []), discs.AbsCat(b'', 0, 0, 800, [])]
        return d
    if kind == 'zero-length':
        variant = r.choice(['dfs', 'wdfs'])
        first = 2 if variant == 'dfs' else 4
        a = discs.AbsFile(0x24, b'A', False, 0, 0, first + r.below(3), discs.rand_body(r, r.range(1, 700)))
        zpos = r.choice([a.start + a.sectors(), a.start + a.sectors() + 2, a.start])
        z = discs.AbsFile(0x24, b'Z', False, 0, 0, zpos, b'')
        b = discs.AbsFile(0x24, b'B', False, 0, 0, a.start + a.sectors() + r.choice([0, 0, 3]), discs.rand_body(r, r.range(1, 700)))
        order = r.choice([[b, z, a], [z, b, a]] if zpos >= b.start else [[b, a, z], [b, z, a]])
        order = sorted([a, b, z], key=lambda f: (-f.start, r.below(2)))
        d = discs.AbsDisc(variant, 80, 10)
        if variant == 'dfs':
            d.cats = [discs.AbsCat(b'ZERO', 1, 0, 800, order)]
        else:
            d.cats = [discs.AbsCat(b'ZERO', 1, 0, 800, order), discs.AbsCat(b'', 0, 0, 800, [])] if r.chance(1, 2) else \
                     [discs.AbsCat(b'ZERO', 1, 0, 800, []), discs.AbsCat(b'', 0, 0, 800, order)]
        return d
    if kind == 'zero-only':
        d = discs.AbsDisc('dfs', 40, 10)
        d.cats = [discs.AbsCat(b'ZONLY', 1, 0, 400, [discs.AbsFile(0x24, b'Z', False, 0, 0, r.choice([2, 100, 399]), b'')])]
        return d
    raise ValueError(kind)


def run(ctx):
    r = ctx.rng
    impl = ctx.build('asan')
    n = 72 if ctx.tier == 'quick' else 500
    cases = []
    kinds = ['wdfs-second-empty', 'wdfs-first-empty', 'wdfs-empty', 'zero-length', 'zero-length', 'zero-only', 'small-total']
    for k in range(n):
        if k < 3 * len(kinds) or r.chance(1, 5):
            kind = kinds[k % len(kinds)]
            d = special_disc(r, kind)
        else:
            kind = 'random'
            d = discs.gen_disc(r, max_files=r.choice([None, 3, 8]))
        ctx.count('layout.' + kind)
        ctx.count('variant.' + d.variant)
        img = d.encode(discs.filler(r))
        name = 'd' + d.extension()
        vols = d.volumes()
        for (label, origin, vlen, cats) in vols:
            drive = '0%s' % (label or '')
            for cmd in (['free', drive], ['space', drive]):
                cases.append(vlib.Case('d%d' % k, {name: img}, ['--file', '@' + name] + cmd,
                                       meta={'cmd': cmd[0], 'd': d, 'vol': (label, origin, vlen, cats), 'kind': kind, 'k': k}))
        # several volumes (or the same one twice) named in one `space` run: each is reported on its own
        order = list(vols) if len(vols) > 1 else [vols[0], vols[0]]
        for seq in ([order[0], order[-1]], [order[-1], order[0]], order[:3][::-1]) if (len(vols) > 1 or k % 4 == 0) else ():
            cases.append(vlib.Case('d%d' % k, {name: img}, ['--file', '@' + name, 'space'] + ['0%s' % (v_[0] or '') for v_ in seq],
                                   meta={'cmd': 'space', 'multi': seq, 'd': d, 'vol': seq[0], 'kind': kind, 'k': k}))
        cases.append(vlib.Case('d%d' % k, {name: img}, ['--file', '@' + name, 'sector-map', '0'], meta={'cmd': 'sector-map', 'd': d, 'kind': kind, 'k': k, 'img': img}))
        cases.append(vlib.Case('d%d' % k, {name: img}, ['--file', '@' + name, 'extract-unused', '@out'], dest='out', meta={'cmd': 'extract-unused', 'd': d, 'kind': kind, 'k': k, 'img': img}))
    vlib.run_cases(cases, impl['dfs'])
    smaps = {}
    for c in cases:
        m = c.meta
        d = m['d']
        common.compare_model(ctx, c, 'e2e-' + m['cmd'])
        ctx.oracle_cases += 1
        nfiles = len(d.all_files())
        ctx.case((m['k'], m['cmd'], str(m.get('vol', ('',))[0]), tuple(c.real_argv[2:])), nfiles > 0, sample={'argv': [a.decode('latin-1') for a in c.real_argv[2:]], 'layout': m['kind'], 'files': nfiles})
        i = c.impl
        rp = None
        keysfx = ':zero-length' if any(f.length == 0 for (_, _, _, f) in d.all_files()) else ''
        c.meta['crashkey'] = m['kind']
        if common.crash_violation(ctx, c, 'crash-' + m['cmd']):
            continue
        out = i['out'].decode('latin-1')
        if m['cmd'] == 'free':
            label, origin, vlen, cats = m['vol']
            catsec, total, owner, used, nf = expected(d, label, origin, vlen, cats)
            maxf = 62 if d.variant == 'wdfs' else 31
            mm = re.findall(r'^\s*(\d+) Files ([0-9A-F,]+) Sectors\s+([\d,-]+) Bytes (Free|Used)$', out, re.M)
            if i['exit'] != 0 or len(mm) != 2:
                ctx.violation('free-failed' + keysfx, 'free failed or printed an unexpected format (exit %d): %r' % (i['exit'], out[:120]), common.replay_of(c))
                continue
            got = {x[3]: (int(x[0]), int(x[1].replace(',', ''), 16), int(x[2].replace(',', ''))) for x in mm}
            want = {'Free': (maxf - nf, total - used, (total - used) * 256), 'Used': (nf, used, used * 256)}
            if got != want:
                key = 'free-numbers' + keysfx
                if d.variant == 'wdfs' and used == catsec and got['Used'][1] == 2:
                    key = 'free-watford-catalogue-sectors'
                ctx.violation(key, 'free reports %s, the catalogue implies %s (%s, %d files, total %d sectors)' % (got, want, d.variant, nf, total), common.replay_of(c))
        elif m['cmd'] == 'space' and m.get('multi'):
            blocks = re.findall(r'Gap sizes on disc [^\n]*:\n([0-9A-F ]*)\n\nTotal space free = ([0-9A-F]+) sectors', out)
            if i['exit'] != 0 or len(blocks) != len(m['multi']):
                ctx.violation('space-failed' + keysfx, 'space with %d drive arguments failed or printed %d reports (exit %d): %s' % (len(m['multi']), len(blocks), i['exit'], i['err'][-120:].decode('latin-1')), common.replay_of(c))
                continue
            for (label, origin, vlen, cats), (gtxt, ttxt) in zip(m['multi'], blocks):
                catsec, total, owner, used, nf = expected(d, label, origin, vlen, cats)
                want_gaps = sorted(b - a for a, b in runs_of_free(owner, total, 0))
                gaps = sorted(int(x, 16) for x in gtxt.split())
                if gaps != want_gaps or int(ttxt, 16) != sum(want_gaps):
                    ctx.violation('space-gaps-multi' + keysfx, '`space %s`: volume %s is reported with gaps %s total %d; its unallocated runs are %s total %d (%s)' % (
                        ' '.join('0%s' % (v_[0] or '') for v_ in m['multi']), label or '0', gaps[:8], int(ttxt, 16), want_gaps[:8], sum(want_gaps), d.variant), common.replay_of(c))
                    break
        elif m['cmd'] == 'space':
            label, origin, vlen, cats = m['vol']
            catsec, total, owner, used, nf = expected(d, label, origin, vlen, cats)
            runs = runs_of_free(owner, total, 0)
            want_gaps = sorted(b - a for a, b in runs)
            mm = re.search(r'Gap sizes on disc [^\n]*:\n([0-9A-F ]*)\n\nTotal space free = ([0-9A-F]+) sectors', out)
            if i['exit'] != 0 or not mm:
                ctx.violation('space-failed' + keysfx, 'space failed (exit %d): %s' % (i['exit'], i['err'][-120:].decode('latin-1')), common.replay_of(c))
                continue
            gaps = sorted(int(x, 16) for x in mm.group(1).split())
            tot = int(mm.group(2), 16)
            if gaps != want_gaps or tot != sum(want_gaps):
                ctx.violation('space-gaps' + keysfx, 'space lists gaps %s total %d; unallocated runs are %s total %d (%s)' % (gaps[:8], tot, want_gaps[:8], sum(want_gaps), d.variant), common.replay_of(c))
        elif m['cmd'] == 'sector-map':
            if i['exit'] != 0:
                ctx.violation('sector-map-failed' + keysfx, 'sector-map failed (exit %d)' % i['exit'], common.replay_of(c))
                continue
            labels = []
            for line in out.split('\n')[2:]:
                mm = re.match(r'^(\d{6}): (.*)$', line)
                if mm:
                    body = mm.group(2)
                    labels += [body[j:j + 12].rstrip(' ') for j in range(0, len(body), 13)]
            smaps[m['k']] = labels
            vols = d.volumes()
            multi = len(vols) > 1
            want = {}
            nsec = d.side_sectors() if d.variant == 'opus' else vols[0][3][0].total
            for (label, origin, vlen, cats) in vols:
                catsec, total, owner, used, nf = expected(d, label, origin, vlen, cats)
                for s, o in owner.items():
                    if o == 'catalog':
                        continue
                    lab = (':%s.' % label if multi else '') + chr(o.dir) + '.' + o.shown_name().decode('latin-1')
                    want.setdefault(origin + s, lab)
            if d.variant == 'opus':
                for i2, (st, cat) in d.vols.items():
                    want[2 * i2] = want[2 * i2 + 1] = '*CAT:0' + chr(65 + i2)
                want[16] = 'disc-cat'
                want[17] = 'reserved'
            else:
                for s in range(4 if d.variant == 'wdfs' else 2):
                    want[s] = 'catalog'
            bad = [(s, labels[s] if s < len(labels) else None, want.get(s, '-')) for s in range(nsec)
                   if (labels[s] if s < len(labels) else None) != want.get(s, '-')[:12]]
            if len(labels) != nsec or bad:
                ctx.violation('sector-map-labels' + keysfx, 'sector-map shows %d sectors (expected %d); first wrong labels (sector, shown, owner): %s' % (len(labels), nsec, bad[:3]), common.replay_of(c))
        else:
            if i['exit'] != 0:
                ctx.violation('extract-unused-failed' + keysfx, 'extract-unused failed (exit %d)' % i['exit'], common.replay_of(c))
                continue
            labels = smaps.get(m['k'])
            if labels is None:
                continue
            img = m['img']
            want = {}
            s = 0
            while s < len(labels):
                if labels[s] == '-':
                    b = s
                    while s < len(labels) and labels[s] == '-':
                        s += 1
                    want[b'unused_%03X.bin' % b] = img[b * 256:s * 256]
                else:
                    s += 1
            got = {k.split(b'/')[-1]: v for k, v in i['files'].items()}
            if got != want:
                ctx.violation('extract-unused-vs-sector-map' + keysfx, 'extract-unused wrote %s; sector-map shows unowned runs %s' % (sorted(got)[:5], sorted(want)[:5]), common.replay_of(c))


def replay(ctx, rp):
    print(rp.get('what'))
