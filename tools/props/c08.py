"""C08 — bbcbasic_to_text fails cleanly on arbitrary input files and options."""
import vlib
from gen import basicprog
from props import common, basic_common as bc

LEAN_MODULE = 'Beeb.Props.C08'
LEAVES = ['target_line_number']
RULE = ('byte strings up to several KiB: random, mutated-valid (bit flips, byte replacement, insertion, deletion), every truncation of small programs, '
        'long lines / deep FOR nesting, x 10 dialect names and no --dialect at all x LISTO 0..7 and invalid values x file/stdin x 1..3 input files x unknown/ambiguous '
        'options, through the ASan+UBSan build (assertions on) and the NDEBUG sanitizer build; expected: exit 0/1, no signal/sanitizer report, stderr non-empty when '
        'exit is 1; compared with the Lean model. Non-trivial = input that is not a valid program.')
ASSUMPTIONS = ['memory safety outside the modelled functions (libc stdio, getopt) is exercised by the sanitizer builds, not proved']


def mutate(r, data):
    d = bytearray(data)
    for _ in range(r.range(1, 4)):
        k = r.below(5)
        if not d:
            d = bytearray(r.bytes(r.range(1, 8)))
        p = r.below(len(d))
        if k == 0:
            d[p] ^= 1 << r.below(8)
        elif k == 1:
            d[p] = r.choice([0, 0x0D, 0xFF, 0x8D, 0xC6, 0xC7, 0xC8, 0x22, r.below(256)])
        elif k == 2:
            d[p:p] = r.bytes(r.range(1, 5))
        elif k == 3:
            del d[p:p + r.range(1, 4)]
        else:
            d = d[:p]
    return bytes(d)


def run(ctx):
    r = ctx.rng
    cases = []
    n = 40 if ctx.tier == 'quick' else 600
    impl = ctx.build('asan')
    tbls = bc.tables(impl)
    for name in bc.DIALECT_NAMES + [None]:
        dn = name or '6502'
        for k in range(n):
            style = r.below(6)
            if style == 0:
                data = r.bytes(r.choice([0, 1, 2, 3, 5, 16, 300, 3000]))
            elif style == 1:
                # deep nesting / long lines
                idx, be, canon = basicprog.DIALECTS[dn]
                lines = [basicprog.Line(10 * j, [basicprog.Item('tok', r.choice([0xE3, 0xF5]))] * r.choice([1, 60, 240])) for j in range(1, r.choice([2, 40, 130]))]
                data = basicprog.encode(lines, be)
            else:
                lines, tbl, be = bc.gen_for(r, tbls, dn, max_lines=5)
                data = mutate(r, basicprog.encode(lines, be))
            opts = []
            if name is not None:
                opts += r.choice([['--dialect', name], ['--dialect=' + name], ['-d', name], ['-d' + name], ['--dia', name]])
            lk = r.below(10)
            if lk < 6:
                opts += r.choice([['--listo', str(r.below(8))], ['-l', str(r.below(8))], ['--listo=%d' % r.below(8)]])
            elif lk == 6:
                opts += [r.choice(['--listo=8', '--listo=-1', '--listo=x', '--listo=', '--listo=7x', '-l', '--list', '--l=3', '--bogus', '-x', '--dialect=nonesuch', '--d', '--help=1'])]
            ctx.count('dialect.%s' % (name or 'none'))
            ctx.count('style.%d' % style)
            nfiles = r.choice([1, 1, 1, 2, 3])
            if r.chance(1, 5) and nfiles == 1:
                cases.append(vlib.Case(dn, {}, opts + ['-'], tool='basic', stdin=data, meta={'style': style}))
            else:
                files = {'a%d' % j: (data if j == 0 else mutate(r, data)) for j in range(nfiles)}
                args = ['@a%d' % j for j in range(nfiles)]
                if r.chance(1, 10):
                    args.insert(r.below(len(args) + 1), 'nonexistent-file')
                cases.append(vlib.Case(dn, files, opts + args, tool='basic', meta={'style': style}))
    # option grammar: every option in every spelling, with and without its argument
    tiny = basicprog.encode([basicprog.Line(10, [basicprog.Item('tok', 0xF1)])], True)
    for opts in (['-D', '-'], ['-D-'], ['--dump-token-maps', '-'], ['--dump-token-maps=-'], ['--dump-token-maps'], ['--dump-token', '-'], ['--dump', '-'], ['-D'],
                 ['-D', '@dump.out'], ['--dump-token-maps', '@dump.out'], ['--dump-token-maps=@dump.out'], ['-D', '/nonexistent-dir/x'], ['--dump-token-maps', '/nonexistent-dir/x'],
                 ['-h'], ['--help'], ['--he'], ['-D', '-', '@a0'], ['--dump-token-maps', '-', '--dialect', 'Z80'], ['-d'], ['--dialect'], ['-l'], ['--listo'], ['--'], ['-'], []):
        files = {'a0': tiny}
        argv = []
        for o in opts:
            if '@dump.out' in o:
                argv.append(o.replace('@dump.out', 'dump.out'))      # created in the case directory (cwd)
            else:
                argv.append(o)
        ctx.count('option-grammar')
        cases.append(vlib.Case('6502', files, argv if any(a.startswith('@') for a in argv) or not argv or argv[-1] in ('-',) or argv[0].startswith(('-D', '--d', '-h', '--he')) else argv + ['@a0'],
                               tool='basic', stdin=tiny if '-' in argv else None, meta={'style': 'options'}))
    # a long line followed by a short line that ends in an extension introducer (the byte after it, in a reused line buffer,
    # belongs to the previous line), for every dialect and LISTO value that matters
    for dn in ('ARM', 'Mac', 'PDP11', 'Windows', '6502', 'Z80'):
        idx_, be_, canon_ = basicprog.DIALECTS[dn]
        for intro in (0xC6, 0xC7, 0xC8, 0x8D):
            for second in (0x95, 0x8E, 0x00, 0xFF):
                long_ = basicprog.Line(10, [basicprog.Item('lit', intro), basicprog.Item('lit', second), basicprog.Item('lit', 0x20), basicprog.Item('lit', 0xB9)] * 3)
                short_ = basicprog.Line(20, [basicprog.Item('lit', intro)])
                data = basicprog.encode([long_, short_], be_)
                for lo in (7, 4, 0):
                    cases.append(vlib.Case(dn, {'s.bbc': data}, ['--dialect', dn, '--listo', str(lo), '@s.bbc'], tool='basic', meta={'style': 'stale-buffer'}))
    ctx.count('stale-buffer-cases', 6 * 4 * 4 * 3)
    # line-length bytes on and around the smallest possible line, followed by little or much further input (a length below the header
    # size must be refused before anything is copied, however much input follows), for every dialect, as a file and as standard input
    for dn in ('6502', 'ARM', 'Mac', 'PDP11', 'Z80', 'Windows'):
        idx_, be_, canon_ = basicprog.DIALECTS[dn]
        for ln_ in (0, 1, 2, 3, 4, 5, 6, 255):
            for tail_ in (0, 5, 300, 1200):
                data = (bytes([0x0D, 0x00, 0x0A, ln_]) if be_ else bytes([ln_, 0x0A, 0x00])) + b'A' * tail_
                cases.append(vlib.Case(dn, {'l.bbc': data}, ['--dialect', dn, '@l.bbc'], tool='basic', meta={'style': 'short-length'}))
                if ln_ in (2, 3, 4) and tail_ in (300, 1200):
                    cases.append(vlib.Case(dn, {}, ['--dialect', dn, '--listo', '0', '-'], tool='basic', stdin=data, meta={'style': 'short-length'}))
    ctx.count('short-length-cases', 6 * 8 * 4)
    # an input "file" that cannot be read at all (a directory: opening works, the first read fails), alone and between good files
    for dn in ('6502', 'Z80'):
        for argv_ in (['@adir'], ['@a0', '@adir'], ['@adir', '@a0'], ['@a0', '@adir', '@a0']):
            c_ = vlib.Case(dn, {'a0': tiny if dn == '6502' else basicprog.encode([basicprog.Line(10, [basicprog.Item('tok', 0xF1)])], False)},
                           ['--dialect', dn] + argv_, tool='basic', dest='adir', meta={'style': 'unreadable-input', 'nomodel': True})
            cases.append(c_)
    # file names that look like printf formats, existing (ill-formed content) and missing
    for fn in ('100%sure%sthing.bbc', 'save%n.bbc', '%s%s%s%s%s%s%s%s', '%99999d.bbc', '%x%x%x%x.bbc'):
        cases.append(vlib.Case('6502', {fn: b'\x0D\x00'}, ['@' + fn], tool='basic', meta={'style': 'format-name'}))
        cases.append(vlib.Case('6502', {}, [fn], tool='basic', meta={'style': 'format-name'}))
        cases.append(vlib.Case('6502', {}, ['--dialect', fn, fn], tool='basic', meta={'style': 'format-name'}))
    for kind in ('asan', 'asan-ndebug'):
        impl = ctx.build(kind)
        cs = cases if kind == 'asan' else [vlib.Case(c.tag, c.files, c.argv, tool='basic', stdin=c.stdin, meta=c.meta, dest=c.dest) for c in cases]
        vlib.run_cases(cs, bc.bins(impl))
        for c in cs:
            if not c.meta.get('nomodel'):        # (the model's file system has files and no directories)
                bc.compare(ctx, c, 'e2e-hostile-' + kind)
            i = c.impl
            ctx.oracle_cases += 1
            ctx.case((kind, tuple(c.argv), tuple(sorted(c.files.items())), c.stdin), True,
                     sample={'build': kind, 'argv': [a.decode('latin-1') for a in c.real_argv[:5]], 'input_hex': (list(c.files.values()) + [c.stdin or b''])[0].hex()[:60]})
            if common.crash_violation(ctx, c, 'crash-' + kind):
                continue
            if i['exit'] not in (0, 1):
                ctx.violation('exit-status', 'exit status %d' % i['exit'], common.replay_of(c))
            elif i['exit'] == 1 and not i['err']:
                ctx.violation('silent-failure', 'exit status 1 with nothing on stderr', common.replay_of(c))


def replay(ctx, rp):
    print(rp.get('what'))
