"""C02 — catalogue metadata is reported exactly as encoded."""
import re

import vlib
from gen import discs
from props import common

LEAN_MODULE = 'Beeb.Props.C02'
LEAN_MODULES = ['Beeb.Props.C02', 'Beeb.Props.C02b']
LEAVES = ['crc_cycle', 'metadata_byte', 'metadata_word', 'load_address', 'exec_address', 'file_length', 'start_sector',
          'directory', 'is_locked', 'sign_extend', 'byte_to_ascii7']
RULE = ('raw 16-byte catalogue entries: every value of the mixed high-bits byte x random low words, '
        'boundary words (0, FFFF, 8000..), names over all byte values incl. NUL/space/top-bit; a case is '
        'non-trivial when the entry is distinct; each is printed by the real operator<<(CatalogEntry) and '
        'by the Lean model and spec')
ASSUMPTIONS = ['iostream setw/setfill/hex/left/right formatting is modelled by its documented effect',
               'std::sort used by cat is modelled as a sort (ties excluded or compared as multisets)']


def gen_entries(ctx, n):
    r = ctx.rng
    out = []
    words = [0, 1, 0xFF, 0x100, 0x7FFF, 0x8000, 0xFFFF, 0x1900, 0x8023]
    for mixed in range(256):
        for _ in range(max(1, n // 256)):
            w = [r.choice(words) if r.chance(1, 3) else r.below(65536) for _ in range(3)]
            name = bytearray(r.bytes(8))
            style = r.below(4)
            if style == 0:
                ln = r.below(8)
                name[:7] = (bytes(r.range(33, 126) for _ in range(ln)) + b' ' * 7)[:7]
                name[7] = r.choice(b'$ABab!#*.:') | (0x80 if r.chance(1, 3) else 0)
            elif style == 1:
                name[r.below(7)] = r.choice([0, 32, 0x80, 0xA0])
            md = bytes([w[0] & 255, w[0] >> 8, w[1] & 255, w[1] >> 8, w[2] & 255, w[2] >> 8, mixed, r.below(256)])
            out.append(bytes(name) + md)
    return out


def run(ctx):
    n = 2048 if ctx.tier == 'quick' else 65536
    entries = gen_entries(ctx, n)
    reqs = ['infoline ' + e.hex() for e in entries]

    def cmp_info(rq, impl, model):
        ctx.case(rq, True, sample={'request': rq, 'impl': impl})
        ctx.traces += 1
        ctx.oracle_cases += 1
        m, s = (model.split(' ') + ['?', '?'])[:2]
        ctx.count('info.mixed_hi=%d' % (int(rq.split()[1][28:30], 16) >> 6))
        if impl != s:
            ctx.violation('info-line', 'info line differs from the documented rendering: entry %s printed %r, spec %r' % (
                rq.split()[1], vlib.unhex(impl) if not impl.startswith(('exc', 'bad')) else impl, vlib.unhex(s)),
                {'stream': 'infoline', 'request': rq, 'impl': impl, 'model': m, 'spec': s})
        elif impl != m:
            ctx.disagree('infoline', 'entry %s: impl %s model %s' % (rq.split()[1], impl, m), {'request': rq, 'impl': impl, 'model': m})
    ctx.pair('infoline', reqs, cmp_info)

    reqs2 = ['fields ' + e.hex() for e in entries[::4]]

    def cmp_fields(rq, impl, model):
        ctx.case(rq, True)
        ctx.traces += 1
        ctx.oracle_cases += 1
        m, s = [x.strip() for x in (model.split('|') + ['?'])[:2]]
        iv = impl.split()
        # spec has no last_sector (index 4)
        isp = ' '.join(iv[:4] + iv[5:]) if len(iv) == 8 else impl
        if isp != s:
            ctx.violation('fields', 'decoded catalogue fields differ from the documented layout: %s impl [%s] spec [%s]' % (rq.split()[1], isp, s),
                          {'stream': 'fields', 'request': rq, 'impl': impl, 'model': m, 'spec': s})
        elif impl != m:
            ctx.disagree('fields', '%s: impl [%s] model [%s]' % (rq.split()[1], impl, m), {'request': rq, 'impl': impl, 'model': m})
    ctx.pair('fields', reqs2, cmp_fields)
    run_e2e(ctx)


def crc_xmodem(data):
    crc = crc_xmodem_(data)
    if len(data) <= 6000:
        vlib.spec_tie('xmodem ' + vlib.hexs(data), str(crc))
    return crc


def spec_title(raw):
    """the 12-character title as shown: NUL-terminated, 7-bit, trailing spaces removed (tied to Beeb.Spec.title)"""
    t12 = (bytes(raw) + b'\0' * 12)[:12]
    t = bytes(b & 0x7F for b in bytes(raw).split(b'\0')[0][:12]).rstrip(b' ')
    vlib.spec_tie('title %s %s' % (vlib.hexs(t12[:8]), vlib.hexs(t12[8:])), vlib.hexs(t))
    return t


def crc_xmodem_(data):
    crc = 0
    for b in data:
        crc ^= b << 8
        for _ in range(8):
            crc = ((crc << 1) ^ 0x1021) & 0xFFFF if crc & 0x8000 else (crc << 1) & 0xFFFF
    return crc


def sign_ext(a):
    r = a | 0xFC0000 if a & 0x20000 else a
    vlib.spec_tie('signext %d' % a, str(r))
    return r


def lower(c):
    return c + 32 if 65 <= c <= 90 else c


def cat_order(files, curdir):
    def key(f):
        return (0 if f.dir == curdir else lower(f.dir), bytes(map(lower, f.shown_name())))
    out = sorted(files, key=key)
    # tied to Beeb.Spec.catBefore: no later entry may come before an earlier one (adjacent pairs and a few distant ones)
    for j in range(len(out) - 1):
        for k in (j + 1, len(out) - 1):
            a, b = out[j], out[k]
            strict = key(a) != key(b)
            vlib.spec_tie('catbefore %d %d %s %d %s' % (curdir, a.dir, vlib.hexs(a.shown_name()), b.dir, vlib.hexs(b.shown_name())), '1' if strict else '0')
            vlib.spec_tie('catbefore %d %d %s %d %s' % (curdir, b.dir, vlib.hexs(b.shown_name()), a.dir, vlib.hexs(a.shown_name())), '0')
    return out


def run_e2e(ctx):
    """cat (all ui styles, --dir), show-titles, extract-files .inf on generated catalogues"""
    r = ctx.rng
    impl = ctx.build('asan')
    cases = []
    n = 24 if ctx.tier == 'quick' else 300
    for k in range(n):
        forced = {0: dict(opus_nvol=3, opus_style='gap-after-a', opus_reorder=False), 1: dict(opus_nvol=3, opus_style='contiguous', opus_reorder=True),
                  2: dict(opus_nvol=2, opus_style='gap', opus_reorder=True)}.get(k)
        d = discs.gen_disc(r, variant='opus', max_files=5, **forced) if forced else discs.gen_disc(r, max_files=r.choice([None, 5, 12]))
        # titles exercising 12 characters, NUL termination, top bits, trailing spaces
        for (label, origin, vlen, cats) in d.volumes():
            t = bytearray([b'', b'ABCDEFGHIJKL', b'TITLE   ', b'EIGHTCHR', b'NINE CHRS', b'A', b'end  sp  ', b'ELITE   DISC', b'GAMES 1 SIDE', b'ABCDEFG HIJK', b'AB      TAIL', b'SEVENCH HI  ', b'A       B'][k % 13])
            if t and r.chance(1, 4):
                t[r.below(len(t))] |= 0x80
            cats[0].title = bytes(t)
            cats[0].cycle = r.choice([0, 1, 0x42, 0x99, 0xAB])
            cats[0].opt = r.below(4)
            for c in cats:
                c.files = [f for f in c.files if f.shown_name() not in (b'L',)]
            # legal DFS names the host cannot use verbatim: the .inf must still record the catalogue name
            if k % 3 == 0 and cats[0].files:
                cats[0].files[0].name = r.choice([b'SRC/C', b'A/B/C', b'/X', b'X/', b'a b'])
                if len(cats[0].files) > 1 and k % 2 == 0:
                    cats[0].files[1].dir = 0x2F
        img = d.encode(discs.filler(r))
        name = 'd' + d.extension()
        for (label, origin, vlen, cats) in d.volumes():
            files = [f for c in cats for f in c.files]
            drive = '0%s' % (label or '')
            dirs = sorted(set(f.dir for f in files)) or [0x24]
            for ui in (None, 'acorn', 'watford', 'opus'):
                cd = r.choice(dirs + [0x24, 0x24])
                argv = ['--file', '@' + name] + (['--ui', ui] if ui else []) + ['--dir', chr(cd), 'cat', drive]
                cases.append(vlib.Case('d%d' % k, {name: img}, argv, meta={'kind': 'cat', 'files': files, 'cat': cats[0], 'd': d, 'ui': ui, 'dir': cd, 'label': label}))
            cases.append(vlib.Case('d%d' % k, {name: img}, ['--file', '@' + name, '--drive', drive, '--dir', chr(r.choice(dirs)), 'extract-files', '@out'], dest='out',
                                   meta={'kind': 'inf', 'files': files, 'd': d}))
        cases.append(vlib.Case('d%d' % k, {name: img}, ['--file', '@' + name, 'show-titles'], meta={'kind': 'titles', 'd': d}))
    vlib.run_cases(cases, impl['dfs'])
    for c in cases:
        common.compare_model(ctx, c, 'e2e-' + c.meta['kind'])
        m = c.meta
        i = c.impl
        ctx.oracle_cases += 1
        ctx.count('e2e.' + m['kind'])
        ctx.case((c.tag, tuple(c.real_argv[2:])), True, sample={'argv': [a.decode('latin-1') for a in c.real_argv[2:]]} if m['kind'] == 'cat' else None)
        if common.crash_violation(ctx, c):
            continue
        if m['kind'] == 'cat':
            files = m['files']
            out = i['out']
            if i['exit'] != 0:
                ctx.violation('cat-failed', 'cat failed on a well-formed disc (exit %d)' % i['exit'], common.replay_of(c))
                continue
            lines = out.split(b'\n')
            title = spec_title(m['cat'].title)
            head = lines[0].strip(b' ') if lines else b''
            if not head.startswith(title):
                ctx.violation('cat-title', 'cat shows title %r, catalogue title is %r' % (head[:14], title), common.replay_of(c))
            mm = re.search(rb'\(([0-9a-fA-F]{2})\)', lines[0] if lines else b'')
            if not mm or int(mm.group(1), 16) != m['cat'].cycle:
                ctx.violation('cat-cycle', 'cat shows cycle %r, catalogue says %02x' % (mm.group(1) if mm else None, m['cat'].cycle), common.replay_of(c))
            if (b'Option %d (' % m['cat'].opt) not in out:
                ctx.violation('cat-option', 'cat does not show boot option %d' % m['cat'].opt, common.replay_of(c))
            dd = m['d'].spt != 10
            want_density = (b'MFM' if dd else b'FM') if (m['ui'] in (None, 'acorn') and not (m['ui'] is None and m['d'].variant in ('wdfs', 'opus'))) else (b'Double density' if dd else b'Single density')
            if want_density not in b'\n'.join(lines[:2]):
                ctx.violation('cat-density', 'cat does not show density %r' % want_density, common.replay_of(c))
            # the listing starts after the blank line that follows the Dir/Lib line
            try:
                start = next(j for j, l in enumerate(lines) if b' :0' in l and (b'Dir' in l)) + 2
            except StopIteration:
                ctx.violation('cat-layout', 'cannot find the directory line in cat output', common.replay_of(c))
                continue
            toks = b' '.join(lines[start:]).split()
            if toks and toks[-1] == b'file' and len(toks) >= 2 and toks[-2] == b'No':
                toks = toks[:-2]
            if m['ui'] == 'watford' or (m['ui'] is None and m['d'].variant == 'wdfs'):
                # footer "NN files of MM on TT tracks"
                if len(toks) >= 7 and toks[-6] == b'files':
                    toks = toks[:-7]
            shown = []
            for t in toks:
                if t == b'L' and shown:
                    shown[-1] = (shown[-1][0], True)
                else:
                    shown.append((t, False))
            want = []
            for f in cat_order(files, m['dir']):
                nm = f.shown_name() if f.dir == m['dir'] else bytes([f.dir]) + b'.' + f.shown_name()
                want.append((nm, f.locked))
            if sorted(shown) != sorted(want):
                ctx.violation('cat-files', 'cat (--ui %s --dir %s) lists %d entries %s…, the catalogue has %d %s…' % (m['ui'], chr(m['dir']), len(shown), sorted(shown)[:4], len(want), sorted(want)[:4]), common.replay_of(c))
            elif shown != want:
                k2 = next(j for j in range(len(want)) if shown[j] != want[j])
                ctx.violation('cat-order', 'cat (--ui %s --dir %s) order differs at position %d: shows %s, documented order has %s' % (m['ui'], chr(m['dir']), k2, shown[k2:k2 + 3], want[k2:k2 + 3]), common.replay_of(c))
        elif m['kind'] == 'titles':
            want = b''
            for (label, origin, vlen, cats) in m['d'].volumes():
                t = spec_title(cats[0].title)
                want += b'0%s: %s\n' % ((label or '').encode(), t)
            if i['exit'] != 0 or i['out'] != want:
                ctx.violation('show-titles', 'show-titles printed %r, catalogue titles are %r' % (i['out'][:80], want[:80]), common.replay_of(c))
        else:
            infs = {k.split(b'/')[-1]: v for k, v in i['files'].items() if k.endswith(b'.inf')}
            for f in m['files']:
                nm = bytes([f.dir]) + b'.' + f.shown_name()
                want = nm + b' %06X %06X %06X %sCRC=%04X\n' % (sign_ext(f.load), sign_ext(f.exec), f.length, b'Locked ' if f.locked else b'', crc_xmodem(f.body))
                got = [v for k, v in infs.items() if v.startswith(nm + b' ')]
                if want not in got:
                    ctx.violation('inf-content', '.inf for %r is %r, expected %r' % (nm, got[:1], want), common.replay_of(c))
                    break


def replay(ctx, rp):
    r = rp.get('replay', rp)
    rq = r.get('request')
    if rq:
        impl = ctx.build('asan')
        ib, irc, ierr = vlib.run_lines(impl['harness'], [rq])
        mb, _, _ = vlib.run_lines(vlib.driver_path(), [rq])
        print('request: %s\nimpl:    %s\nmodel/spec: %s' % (rq, ib, mb))
        ctx.case(rq)
        if ib and mb and rq.startswith('infoline') and ib[0] != mb[0].split(' ')[1]:
            ctx.violation('info-line', 'replayed: impl %s spec %s' % (ib[0], mb[0]), r)
