"""C02 — catalogue metadata is reported exactly as encoded."""
import vlib

LEAN_MODULE = 'Beeb.Props.C02'
LEAVES = ['metadata_byte', 'metadata_word', 'load_address', 'exec_address', 'file_length', 'start_sector',
          'directory', 'is_locked', 'sign_extend', 'byte_to_ascii7']
RULE = ('raw 16-byte catalogue entries: every value of the mixed high-bits byte x random low words, '
        'boundary words (0, FFFF, 8000..), names over all byte values incl. NUL/space/top-bit; a case is '
        'non-trivial when the entry is distinct; each is printed by the real operator<<(CatalogEntry) and '
        'by the Lean model and spec')
ASSUMPTIONS = ['iostream setw/setfill/hex/left/right formatting is modelled by its documented effect',
               'std::sort used by cat is modelled as a sort (ties excluded or compared as multisets)']


def gen_entries(ctx, n):
    r = ctx.rng
    out = []
    words = [0, 1, 0xFF, 0x100, 0x7FFF, 0x8000, 0xFFFF, 0x1900, 0x8023]
    for mixed in range(256):
        for _ in range(max(1, n // 256)):
            w = [r.choice(words) if r.chance(1, 3) else r.below(65536) for _ in range(3)]
            name = bytearray(r.bytes(8))
            style = r.below(4)
            if style == 0:
                ln = r.below(8)
                name[:7] = (bytes(r.range(33, 126) for _ in range(ln)) + b' ' * 7)[:7]
                name[7] = r.choice(b'$ABab!#*.:') | (0x80 if r.chance(1, 3) else 0)
            elif style == 1:
                name[r.below(7)] = r.choice([0, 32, 0x80, 0xA0])
            md = bytes([w[0] & 255, w[0] >> 8, w[1] & 255, w[1] >> 8, w[2] & 255, w[2] >> 8, mixed, r.below(256)])
            out.append(bytes(name) + md)
    return out


def run(ctx):
    n = 2048 if ctx.tier == 'quick' else 65536
    entries = gen_entries(ctx, n)
    reqs = ['infoline ' + e.hex() for e in entries]

    def cmp_info(rq, impl, model):
        ctx.case(rq, True, sample={'request': rq, 'impl': impl})
        ctx.traces += 1
        ctx.oracle_cases += 1
        m, s = (model.split(' ') + ['?', '?'])[:2]
        ctx.count('info.mixed_hi=%d' % (int(rq.split()[1][28:30], 16) >> 6))
        if impl != s:
            ctx.violation('info-line', 'info line differs from the documented rendering: entry %s printed %r, spec %r' % (
                rq.split()[1], vlib.unhex(impl) if not impl.startswith(('exc', 'bad')) else impl, vlib.unhex(s)),
                {'stream': 'infoline', 'request': rq, 'impl': impl, 'model': m, 'spec': s})
        elif impl != m:
            ctx.disagree('infoline', 'entry %s: impl %s model %s' % (rq.split()[1], impl, m), {'request': rq, 'impl': impl, 'model': m})
    ctx.pair('infoline', reqs, cmp_info)

    reqs2 = ['fields ' + e.hex() for e in entries[::4]]

    def cmp_fields(rq, impl, model):
        ctx.case(rq, True)
        ctx.traces += 1
        ctx.oracle_cases += 1
        m, s = [x.strip() for x in (model.split('|') + ['?'])[:2]]
        iv = impl.split()
        # spec has no last_sector (index 4)
        isp = ' '.join(iv[:4] + iv[5:]) if len(iv) == 8 else impl
        if isp != s:
            ctx.violation('fields', 'decoded catalogue fields differ from the documented layout: %s impl [%s] spec [%s]' % (rq.split()[1], isp, s),
                          {'stream': 'fields', 'request': rq, 'impl': impl, 'model': m, 'spec': s})
        elif impl != m:
            ctx.disagree('fields', '%s: impl [%s] model [%s]' % (rq.split()[1], impl, m), {'request': rq, 'impl': impl, 'model': m})
    ctx.pair('fields', reqs2, cmp_fields)


def replay(ctx, rp):
    r = rp.get('replay', rp)
    rq = r.get('request')
    if rq:
        impl = ctx.build('asan')
        ib, irc, ierr = vlib.run_lines(impl['harness'], [rq])
        mb, _, _ = vlib.run_lines(vlib.driver_path(), [rq])
        print('request: %s\nimpl:    %s\nmodel/spec: %s' % (rq, ib, mb))
        ctx.case(rq)
        if ib and mb and rq.startswith('infoline') and ib[0] != mb[0].split(' ')[1]:
            ctx.violation('info-line', 'replayed: impl %s spec %s' % (ib[0], mb[0]), r)
