"""C01 — dfs delivers each catalogued file's bytes exactly."""
import vlib
from gen import discs
from props import common

LEAN_MODULE = 'Beeb.Props.C01'
LEAVES = ['metadata_byte', 'metadata_word', 'file_length', 'start_sector', 'last_sector', 'sector_count',
          'fileview_pos', 'fileview_unformatted', 'fileview_beyond', 'volume_access_beyond']
RULE = ('well-formed abstract discs (Acorn/Watford/Opus; all geometries; 0..31/62 files; start sectors needing the high bits; '
        'lengths 0,1,255,256,257,>64KiB; random/text/constant bodies; random filler) encoded by the published layout; every file read with '
        'type --binary/type/list/dump and extract-files through the real dfs; compared with the abstract body (oracle) and the Lean model '
        '(correspondence). A case is non-trivial when the command reached a file body.')
ASSUMPTIONS = ['the host file system stores what ofstream writes (extract-files)',
               'Python reference renderings of type/list/dump (tools/props/common.py) are the documented ones']


def run(ctx):
    r = ctx.rng
    ndiscs = 40 if ctx.tier == 'quick' else 600
    impl = ctx.build('asan')
    cases = []
    for k in range(ndiscs):
        # the first discs of every run: Opus discs with a letter missing before a present one, and with the volumes lying on the disc in
        # non-alphabetical order (each volume must still be read through its own catalogue, 2i/2i+1, from its own start track)
        forced = {0: dict(opus_nvol=3, opus_style='gap-after-a', opus_reorder=False), 1: dict(opus_nvol=2, opus_style='gap', opus_reorder=True),
                  2: dict(opus_nvol=3, opus_style='contiguous', opus_reorder=True)}.get(k)
        d = discs.gen_disc(r, variant='opus', max_files=4, **forced) if forced else discs.gen_disc(r)
        if forced:
            for (st_, cat_) in d.vols.values():
                if not cat_.files and cat_.total > 20:
                    cat_.files = [discs.AbsFile(0x24, b'ONLY%d' % st_, False, 0, 0, 3, r.bytes(r.range(1, 700)))]
        img = d.encode(discs.filler(r))
        name = 'd' + d.extension()
        files = d.all_files()
        ctx.count('variant.' + d.variant)
        ctx.count('nfiles.%s' % ('0' if not files else '1-5' if len(files) < 6 else '6-31' if len(files) < 32 else '32-62'))
        pick = files if ctx.tier == 'thorough' or len(files) <= 6 else r.shuffle(files)[:6]
        for (label, origin, vlen, f) in pick:
            lc = 'len.%s' % ('0' if f.length == 0 else '<256' if f.length < 256 else '=256k' if f.length % 256 == 0 else '>64K' if f.length > 65535 else 'other')
            ctx.count(lc)
            ctx.count('start.%s' % ('hi' if f.start > 255 else 'lo'))
            for cmd in (['type', '--binary'], ['type'], ['list'], ['dump']):
                cases.append(vlib.Case('d%d' % k, {name: img}, ['--file', '@' + name] + cmd + [common.fsp(label, f)],
                                       meta={'cmd': cmd, 'file': f, 'variant': d.variant, 'disc': k}))
            if label == 'A':
                # on an Opus disc drive 0 means volume 0A, however many volumes there are
                cases.append(vlib.Case('d%d' % k, {name: img}, ['--file', '@' + name, 'type', '--binary', common.fsp(None, f)],
                                       meta={'cmd': ['type', '--binary'], 'file': f, 'variant': d.variant + '-default-volume', 'disc': k}))
                ctx.count('opus.default-volume.%d-volumes' % len(d.vols))
        # extract-files per volume
        for (label, origin, vlen, cats) in d.volumes():
            cases.append(vlib.Case('d%d' % k, {name: img}, ['--file', '@' + name, '--drive', '0%s' % (label or ''), 'extract-files', '@out'],
                                   dest='out', meta={'cmd': ['extract-files'], 'label': label, 'disc': k, 'absfiles': [f for c in cats for f in c.files], 'variant': d.variant}))
    # names that differ only in characters a sloppy case-fold would identify (0x40/0x60, 0x5B-0x5E/0x7B-0x7E), in letter case,
    # or in the top bit: each must deliver its own body
    pairs = [b'TAB[', b'TAB{', b'A^B', b'A~B', b'X@', b'X`', b'P\\Q', b'P|Q', b'E]', b'E}', b'_U', b'\x7fU'[:2], b'1', b'q']
    files = []
    pos = 2
    for j, nm in enumerate(pairs):
        body = (b'body-of-%d:' % j) + nm + bytes([j]) * (37 * j % 300)
        files.append(discs.AbsFile(0x24, nm, False, 0, 0, pos, body))
        pos += max(1, (len(body) + 255) // 256)
    files.reverse()
    dconf = discs.AbsDisc('dfs', 40, 10)
    dconf.cats = [discs.AbsCat(b'CONFUSE', 0, 0, 400, files)]
    imgc = dconf.encode(lambda n: bytes(n))
    for f in files:
        for cmd in (['type', '--binary'], ['dump']):
            cases.append(vlib.Case('conf', {'c.ssd': imgc}, ['--file', '@c.ssd'] + cmd + [common.fsp(None, f)],
                                   meta={'cmd': cmd, 'file': f, 'variant': 'dfs-confusable-names', 'disc': -1}))
        ctx.count('confusable-name')
    vlib.run_cases(cases, impl['dfs'])
    for c in cases:
        common.compare_model(ctx, c, 'e2e-' + c.meta['cmd'][0])
        i = c.impl
        cmd = c.meta['cmd']
        ctx.oracle_cases += 1
        if common.crash_violation(ctx, c):
            ctx.case(c.real_argv, True)
            continue
        if cmd[0] == 'extract-files':
            want = {}
            for f in c.meta['absfiles']:
                leaf = (f.shown_name() if f.dir == 0x24 else bytes([f.dir]) + b'.' + f.shown_name())
                want[leaf] = f.body
            ctx.case(c.real_argv, bool(want), sample={'argv': [a.decode('latin-1') for a in c.real_argv[2:]], 'files': len(want)})
            safe = all(b'/' not in k and k not in (b'.', b'..') and len(k) > 0 for k in want) and len(set(k.lower() for k in want)) == len(want)
            if not safe:
                continue
            got = {k.split(b'/')[-1]: v for k, v in i['files'].items() if not k.endswith(b'.inf')}
            if i['exit'] != 0 or got != want:
                bad = [k for k in want if got.get(k) != want[k]][:3]
                ctx.violation('extract-files-body', 'extract-files did not deliver the catalogued bytes (exit %d; wrong/missing: %r)' % (i['exit'], bad),
                              common.replay_of(c))
            continue
        f = c.meta['file']
        ctx.case(c.real_argv, True, sample={'argv': [a.decode('latin-1') for a in c.real_argv[2:]], 'len': f.length, 'start': f.start})
        want = {'type--binary': f.body, 'type': common.spec_type(f.body), 'list': common.spec_list(f.body), 'dump': common.spec_dump(f.body)}[''.join(cmd)]
        if i['exit'] != 0 or i['out'] != want:
            key = 'body-%s' % ''.join(cmd)
            if f.length == 0 and i['exit'] != 0:
                key = 'zero-length-file-unreadable-start'
            ctx.violation(key, '%s of a %d-byte file at sector %d (%s): exit %d, %d bytes delivered, expected %d%s' % (
                ' '.join(cmd), f.length, f.start, c.meta['variant'], i['exit'], len(i['out']), len(want),
                '' if i['out'] == want else ' (content differs at byte %d)' % next((k for k in range(min(len(want), len(i['out']))) if want[k] != i['out'][k]), min(len(want), len(i['out'])))),
                common.replay_of(c))


def replay(ctx, rp):
    r = rp.get('replay', rp)
    impl = ctx.build('asan')
    files = {k: bytes.fromhex(v) for k, v in r.get('files', {}).items()}
    argv = r['argv']
    print('replay: dfs %s' % ' '.join(argv))
    print('recorded: exit %s' % r.get('impl_exit'))
