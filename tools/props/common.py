"""Helpers shared by the disc-based property checks."""
import os
import sys

import vlib
from gen import discs


def compare_model(ctx, c, stream, compare_err=True, compare_files=True):
    """Correspondence: the Lean model of dfs vs the real binary on one case."""
    m, i = c.model, c.impl
    if 'unmodelled' in m:
        ctx.count('unmodelled')
        return None
    if 'bad' in m:
        ctx.proof_break('model driver produced a malformed line', str(m))
        return None
    ctx.traces += 1
    class Lazy(dict):
        def __missing__(self, k):
            self.update({'stream': stream, 'argv': [a.decode('latin-1') for a in c.real_argv],
                         'files': {k: v.hex()[:200000] for k, v in c.files.items()},
                         'model': {'exit': m['exit'], 'err': m['err'], 'out': m['out'].hex()[:4000], 'crash': m['crash']},
                         'impl': {'exit': i['exit'], 'out': i['out'].hex()[:4000], 'stderr': i['err'][-1500:].decode('latin-1')}})
            return dict.__getitem__(self, k)
    rp = Lazy()
    if m['crash']:
        if not vlib.crashed(i['exit'], i['err']):
            rp['argv']
            ctx.disagree(stream, 'model predicts a crash (%s) but the implementation exited %d' % (m['crash'], i['exit']), dict(rp))
            return False
        return True
    if vlib.crashed(i['exit'], i['err']):
        rp['argv']
        ctx.disagree(stream, 'implementation crashed (rc=%d: %s) where the model predicts exit %d' % (
            i['exit'], first_error_line(i['err']), m['exit']), dict(rp))
        return False
    ok = m['exit'] == i['exit'] and m['out'] == i['out']
    if compare_err:
        ok = ok and (m['err'] == (len(i['err']) > 0))
    if compare_files:
        ok = ok and m['files'] == i['files']
    if not ok:
        what = []
        if m['exit'] != i['exit']:
            what.append('exit model %d impl %d' % (m['exit'], i['exit']))
        if m['out'] != i['out']:
            what.append('stdout differs (model %r… impl %r…)' % (m['out'][:60], i['out'][:60]))
        if compare_err and m['err'] != (len(i['err']) > 0):
            what.append('stderr-non-empty model %s impl %r' % (m['err'], i['err'][:80]))
        if compare_files and m['files'] != i['files']:
            what.append('created files differ (model %s impl %s)' % (sorted(m['files'])[:3], sorted(i['files'])[:3]))
        ctx.disagree(stream, '%s: %s' % (' '.join(rp['argv'][-3:]), '; '.join(what)), dict(rp))
    return ok


def first_error_line(err):
    s = err.decode('latin-1', 'replace') if isinstance(err, bytes) else err
    for l in s.split('\n'):
        if 'ERROR' in l or 'runtime error' in l or 'Assertion' in l or 'terminate' in l:
            return l.strip()[:200]
    return s.strip()[-200:]


def crash_violation(ctx, c, key_prefix='crash'):
    i = c.impl
    if vlib.crashed(i['exit'], i['err']):
        ctx.violation('%s:%s' % (key_prefix, c.meta.get('crashkey', c.tag)),
                      'dfs ended by signal/abort/sanitizer report: rc=%d %s' % (i['exit'], first_error_line(i['err'])),
                      replay_of(c))
        return True
    return False


def replay_of(c, extra=None):
    r = {'argv': [a.decode('latin-1') for a in c.real_argv],
         'files': {k: v.hex() for k, v in c.files.items() if len(v) < 600000 and not isinstance(v, vlib.Sparse)},
         'impl_exit': c.impl['exit'] if c.impl else None,
         'impl_stdout': c.impl['out'].hex()[:2000] if c.impl else None,
         'impl_stderr': c.impl['err'][-800:].decode('latin-1') if c.impl else None,
         'meta': {k: (v if isinstance(v, (int, str, list, dict, type(None))) else repr(v)) for k, v in c.meta.items()}}
    if extra:
        r.update(extra)
    return r


def fsp(label, f):
    """:0X.D.NAME for an AbsFile"""
    return (':0%s.' % (label or '')).encode() + bytes([f.dir]) + b'.' + f.shown_name()


# ------------------------------------------------------------ spec renderings (Python, from doc/dfs.1)
def _tie(kind, body, out):
    if len(body) <= 6000:
        vlib.spec_tie('%s %s' % (kind, vlib.hexs(body)), vlib.hexs(out))
    return out


def spec_type(body):
    return _tie('type', body, body.replace(b'\r', b'\n'))


def spec_list(body):
    """numbered lines, 4-column right-aligned number, CR ends a line"""
    out = bytearray()
    if not body:
        return _tie('list', body, b'')
    lines = body.split(b'\r')
    terminated = body.endswith(b'\r')
    if terminated:
        lines = lines[:-1]
    for n, l in enumerate(lines, 1):
        out += b'%4d ' % n + l
        if n < len(lines) or terminated:
            out += b'\n'
    return _tie('list', body, bytes(out))


def spec_dump(body):
    """8 bytes per row: 6-digit decimal offset, hex bytes (** past the end), printable chars"""
    out = bytearray()
    for pos in range(0, len(body), 8):
        row = body[pos:pos + 8]
        out += b'%06d' % pos
        for i in range(8):
            out += (b' %02X' % row[i]) if i < len(row) else b' **'
        out += b' '
        for i in range(8):
            ch = row[i] if i < len(row) else 0x2E
            out.append(ch if (ch == 0x20 or 0x21 <= ch <= 0x7E) else 0x2E)
        out += b'\n'
    return _tie('dump', body, bytes(out))
