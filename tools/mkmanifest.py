#!/usr/bin/env python3
"""Regenerate MANIFEST.json from the set of property modules present under tools/props."""
import json, os, subprocess
V = os.path.dirname(os.path.dirname(os.path.abspath(__file__)))
props = [json.loads(l) for l in open(os.path.join(V, 'properties.jsonl'))]
TEXT = json.load(open(os.path.join(V, 'tools', 'claims.json')))
claimed = sorted(p for p in TEXT['claims'])
fixes = subprocess.run(['git', '-C', '/repo', 'log', '--format=%h %s'], capture_output=True, text=True).stdout.strip().split('\n')
checks = []
for p in props:
    if p['id'] not in TEXT['claims']:
        continue
    c = TEXT['claims'][p['id']]
    checks.append({
        "property_id": p['id'],
        "quick_cmd": "./check %s --tier quick" % p['id'],
        "thorough_cmd": "./check %s --tier thorough" % p['id'],
        "evidence_file": "/verif/evidence/%s.json" % p['id'],
        "replay_cmd_template": "./check %s --replay {path}" % p['id'],
        "engine": "lean4-proof+correspondence",
        "level_claimed": {"category": "proof", "text": c['text'], "design_ref": c.get('design_ref', 'DESIGN.md section 5')},
        "level_note": c['note'],
        "technique": c.get('technique', 'Lean 4 machine-checked proof over a model tied to the code by translation and correspondence'),
    })
m = {"version": 1,
     "setup_cmd": "cd lean && lake build Beeb beebdrv",
     "hooks": {"guard": "BEEBTOOLS_VERIF",
               "enable": "checks compile /repo's sources directly with -DBEEBTOOLS_VERIF (tools/vlib.py build_impl); no guarded code exists in /repo",
               "baseline_off_cmd": "cmake --build /repo/_build && ctest --test-dir /repo/_build -j8 --timeout 900",
               "source_commits": [], "add_only": True},
     "engines": [{"name": "lean4-proof+correspondence", "path": "/verif/check", "serves_properties": claimed,
                  "kind_free_text": "Lean 4 theorems about an executable model; integer leaves and tables regenerated from /repo by tools/translate on every run; model tied to the real code by differential runs (in-process harness + end-to-end binaries built from the working tree with ASan/UBSan); spec oracle searches for a failing input"}],
     "checks": checks,
     "not_applicable": [{"property_id": p['id'], "reason": TEXT['not_applicable'].get(p['id'], "check not built yet (work in progress; to be claimed)")} for p in props if p['id'] not in TEXT['claims']],
     "notes": "Repairs of genuine defects in /repo are the commits whose subject starts with 'fix:' (%d so far); see known_findings.json and DESIGN.md." % sum(1 for f in fixes if ' fix:' in ' ' + f)}
json.dump(m, open(os.path.join(V, 'MANIFEST.json'), 'w'), indent=1)
print('claimed', claimed)
