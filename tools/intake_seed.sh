#!/bin/sh
# usage: tools/intake_seed.sh <dir with out/change1, out/change2> <Cxx> <n1> <n2>
# Copies a seeding agent's two changes into /verif/seeded/Cxx-n, then confirms each: demonstration passes on a build of
# HEAD (/tmp/headwt/_build), HEAD+patch builds, passes the 39 tests and fails the demonstration (tools/demo_mutant.sh).
src="$1"; pid="$2"; shift 2
k=1
for n in "$@"; do
  d=/verif/seeded/$pid-$n
  [ -f "$src/out/change$k/patch.diff" ] || { echo "$pid-$n: no change$k"; k=$((k+1)); continue; }
  mkdir -p "$d"
  cp "$src/out/change$k/patch.diff" "$src/out/change$k/demonstration.sh" "$src/out/change$k/README.md" "$d/"
  sh "$d/demonstration.sh" /tmp/headwt/_build > /tmp/intake.$pid-$n.clean 2>&1; c=$?
  out=$(/verif/tools/demo_mutant.sh "$d" 2>&1 | grep -E "tests passed|tests failed|DEMO-EXIT|PATCH-DOES|BUILD-FAILS" | tr '\n' ' ')
  echo "$pid-$n clean-demo-exit=$c :: $out"
  k=$((k+1))
done
