#!/bin/sh
# Run every seeded change through the check of its property; one summary line each into /verif/seeded/results.txt
cd /verif
: > seeded/results.txt
for d in seeded/C*/ seeded/_incoming/C*/; do
  [ -f "$d/patch.diff" ] || continue
  m=$(basename "$d"); id=${m%-*}
  out=$(tools/try_patch.sh "/verif/$d/patch.diff" -- "$id" 2>&1)
  verdict=$(echo "$out" | grep -E " -> " | sed 's/.*-> //')
  nv=$(echo "$out" | grep -c "^VIOLATION")
  nf=$(echo "$out" | grep -c "no-failing-input-found")
  first=$(echo "$out" | grep -E "violation:|break:|disagreement" | head -1 | cut -c1-200)
  echo "$m verdict=$verdict violations=$nv no_input=$nf :: $first" >> seeded/results.txt
done
