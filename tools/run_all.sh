#!/bin/sh
# Run every claimed check (quick tier) on the unchanged tree, in parallel groups, and validate the evidence.
cd /verif || exit 2
ids=$(python3 -c "import json; print(' '.join(c['property_id'] for c in json.load(open('MANIFEST.json'))['checks']))")
fail=0
for id in $ids; do
  out=$(./check "$id" --tier "${1:-quick}" 2>&1); rc=$?
  echo "$out" | grep -E "VIOLATION| -> " | cut -c1-200
  [ $rc -ne 0 ] && fail=1
done
python3-vt - <<'PY'
import json, jsonschema, glob
sch = json.load(open('/root/.vp/EVIDENCE.schema.json'))
for c in json.load(open('/verif/MANIFEST.json'))['checks']:
    p = c['evidence_file']
    try:
        e = json.load(open(p)); jsonschema.validate(e, sch)
        cov = e['coverage']
        assert cov['discharged'] == cov['obligations'] >= 1, 'discharged %s != obligations %s' % (cov['discharged'], cov['obligations'])
    except Exception as ex:
        print('EVIDENCE PROBLEM', p, str(ex)[:200])
PY
exit $fail
