#!/usr/bin/env python3
"""Developer aid: run a property module's correspondence/oracle part only (no proofs, no evidence)."""
import importlib, json, os, sys
sys.path.insert(0, os.path.dirname(os.path.abspath(__file__)))
import vlib, runner
pid = sys.argv[1].lower()
tier = sys.argv[2] if len(sys.argv) > 2 else 'quick'
seed = int(sys.argv[3]) if len(sys.argv) > 3 else 20260929
mod = importlib.import_module('props.' + pid)
ctx = runner.Ctx(pid.upper(), tier, seed)
rc, out, lt = vlib.lake_build(['beebdrv'])
if rc != 0:
    print(out[-3000:]); sys.exit(2)
mod.run(ctx)
print('evaluations', ctx.evaluations, 'nontrivial', len(ctx.nontrivial), 'traces', ctx.traces, 'oracle', ctx.oracle_cases)
print(json.dumps(ctx.dist, sort_keys=True))
seen = {}
for v in ctx.violations:
    seen.setdefault(v['key'], []).append(v)
for k, vs in seen.items():
    print('VIOLATION', k, len(vs), vs[0]['what'][:400])
seen = {}
for d in ctx.disagreements:
    seen.setdefault(d['what'][:60], []).append(d)
for k, ds in seen.items():
    print('DISAGREE', len(ds), ds[0]['stream'], ds[0]['what'][:600])
    if os.environ.get('DRY_DUMP'):
        json.dump(ds[0]['replay'], open('/tmp/dry_%s_%d.json' % (pid, len(seen)), 'w'), default=lambda o: o.hex() if isinstance(o, (bytes, bytearray)) else str(o))
for p in ctx.proof_breaks:
    print('BREAK', p['what'][:300], p['detail'][-1500:])
