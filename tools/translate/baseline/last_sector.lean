/-- translated from `last_sector` (dfs/dfs_catalog.cc) -/
def last_sector (raw_metadata : Nat → Nat) : Nat :=
  let start := (start_sector raw_metadata)
  let len := (file_length raw_metadata)
  if (0 == len) then
    start
  else
    let division := (C.ldiv len 256)
    let sectors_for_this_file := (((((division).1) % 4294967296) + (if ((division).2 != 0) then 1 else 0)) % 4294967296)
    (sector_count ((((start + sectors_for_this_file) % 4294967296) + 4294967296 - 1) % 4294967296))
