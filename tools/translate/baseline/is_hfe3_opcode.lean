/-- translated from `is_hfe3_opcode` (dfs/img_hfe.cc) -/
def is_hfe3_opcode (val : Nat) : Bool :=
  ((val &&& 240) == 240)
