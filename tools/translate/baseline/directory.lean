/-- translated from `directory` (dfs/dfs_catalog.cc) -/
def directory (raw_name : Nat → Nat) : Nat :=
  (((127 &&& (raw_name 7))) % 256)
