/-- translated from `sector_count` (dfs/dfs_catalog.cc) -/
def sector_count (x : Nat) : Nat :=
  ((x) % 4294967296)
