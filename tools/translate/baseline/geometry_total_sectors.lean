/-- translated from `total_sectors` (dfs/geometry.cc) -/
def geometry_total_sectors (cylinders : Nat) (heads : Nat) (sectors : Nat) : Nat :=
  (sector_count ((((cylinders * heads) % 4294967296) * sectors) % 4294967296))
