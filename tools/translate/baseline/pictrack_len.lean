/-- translated from `track_len` (dfs/img_hfe.cc) -/
def pictrack_len (track_len_ : Nat) : Nat :=
  if ((track_len_ &&& 511) != 0) then
    (((track_len_ &&& (4294967295 - 511)) + 512) % 4294967296)
  else
    track_len_
