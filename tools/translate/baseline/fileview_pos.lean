/-- translated from a fragment of `read_block` (dfs/img_fileio.cc) -/
def fileview_pos (initial_skip : Nat) (take : Nat) (leave : Nat) (sector : Nat) : Nat :=
  ((((initial_skip + (C.umul 64 (sector / take) ((take + leave) % 18446744073709551616))) % 18446744073709551616) + (sector % take)) % 18446744073709551616)
