/-- translated from `crc_cycle` (dfs/crc16.cc) -/
def crc_cycle (crc : Nat) : Nat :=
  if ((crc &&& 32768) != 0) then
    ((((((crc ^^^ 2064) &&& 32767) <<< 1) % 18446744073709551616) + 1) % 18446744073709551616)
  else
    ((crc <<< 1) % 18446744073709551616)
