/-- translated from `max_file_count` (dfs/dfs_catalog.cc) -/
def max_file_count (fmt : Nat) : Nat :=
  (if (fmt == 2 /- WDFS -/) then 62 else 31)
