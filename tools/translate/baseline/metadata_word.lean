/-- translated from `metadata_word` (dfs/dfs_catalog.cc) -/
def metadata_word (raw_metadata : Nat → Nat) (offset : Nat) : Nat :=
  ((((((raw_metadata ((offset + 1) % 4294967296)) <<< 8) % 4294967296) ||| (raw_metadata offset))) % 65536)
