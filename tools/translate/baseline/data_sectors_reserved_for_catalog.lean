/-- translated from `data_sectors_reserved_for_catalog` (dfs/dfs_catalog.cc) -/
def data_sectors_reserved_for_catalog (f : Nat) : Nat :=
  (if (f == 3 /- OpusDDOS -/) then 0 else (catalog_sectors_for_format f))
