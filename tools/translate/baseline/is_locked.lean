/-- translated from `is_locked` (dfs/dfs_catalog.cc) -/
def is_locked (raw_name : Nat → Nat) : Bool :=
  ((((1 <<< 7) % 4294967296) &&& (raw_name 7)) != 0)
