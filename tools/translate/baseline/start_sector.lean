/-- translated from `start_sector` (dfs/dfs_catalog.cc) -/
def start_sector (raw_metadata : Nat → Nat) : Nat :=
  ((metadata_byte raw_metadata 7) ||| ((((metadata_byte raw_metadata 6) &&& 3) <<< 8) % 4294967296))
