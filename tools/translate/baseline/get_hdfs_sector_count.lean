/-- translated from `get_hdfs_sector_count` (dfs/identify.cc) -/
def get_hdfs_sector_count (sec1 : Nat → Nat) : Nat :=
  let sectors_per_side := ((sec1 7) ||| ((((sec1 6) &&& 3) <<< 8) % 4294967296))
  let side_shift := (if (((sec1 6) &&& 4) != 0) then 1 else 0)
  ((sectors_per_side <<< side_shift) % 4294967296)
