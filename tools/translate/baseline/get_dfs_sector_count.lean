/-- translated from `get_dfs_sector_count` (dfs/identify.cc) -/
def get_dfs_sector_count (sec1 : Nat → Nat) : Nat :=
  ((sec1 7) ||| ((((sec1 6) &&& 7) <<< 8) % 4294967296))
