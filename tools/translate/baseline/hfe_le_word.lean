/-- translated from `le_word` (dfs/img_hfe.cc) -/
def hfe_le_word (d : Nat → Nat) : Nat :=
  ((((d 0) ||| (((d 1) <<< 8) % 4294967296))) % 65536)
