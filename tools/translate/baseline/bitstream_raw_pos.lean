/-- translated from `raw_pos` (dfs/img_hfe.cc) -/
def bitstream_raw_pos (stride_ : Nat) (first_ : Nat) (bitpos : Nat) : Nat :=
  ((((bitpos * stride_) % 18446744073709551616) + first_) % 18446744073709551616)
