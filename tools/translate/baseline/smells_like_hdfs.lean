/-- translated from `smells_like_hdfs` (dfs/identify.cc) -/
def smells_like_hdfs (sec1 : Nat → Nat) : Bool :=
  (((sec1 6) &&& 8) != 0)
