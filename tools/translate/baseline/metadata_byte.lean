/-- translated from `metadata_byte` (dfs/dfs_catalog.cc) -/
def metadata_byte (raw_metadata : Nat → Nat) (offset : Nat) : Nat :=
  (raw_metadata offset)
