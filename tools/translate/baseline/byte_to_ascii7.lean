/-- translated from `byte_to_ascii7` (dfs/dfs_catalog.cc) -/
def byte_to_ascii7 (b : Nat) : Nat :=
  (((b &&& 127)) % 256)
