/-- translated from `catalog_sectors_for_format` (dfs/dfs_catalog.cc) -/
def catalog_sectors_for_format (f : Nat) : Nat :=
  (if (f == 2 /- WDFS -/) then 4 else 2)
