/-- translated from `opposite_surface` (dfs/driveselector.cc) -/
def opposite_surface (d : Nat) : Nat :=
  if (d % 4) == 0 || (d % 4) == 1 then
    ((d + 2) % 4294967296)
  else
    if (d % 4) == 2 || (d % 4) == 3 then
      ((d + 4294967296 - 2) % 4294967296)
    else
      0 /- abort() -/
