/-- translated from a fragment of `read_block` (dfs/dfs_volume.cc) -/
def volume_access_beyond (len : Nat) (lba : Nat) : Bool :=
  (decide (lba >= len))
