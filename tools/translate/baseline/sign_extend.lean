/-- translated from `sign_extend` (dfs/dfs_catalog.cc) -/
def sign_extend (address : Nat) : Nat :=
  if ((address &&& 131072) != 0) then
    (16515072 ||| address)
  else
    address
