/-- translated from `file_length` (dfs/dfs_catalog.cc) -/
def file_length (raw_metadata : Nat → Nat) : Nat :=
  ((metadata_word raw_metadata 4) ||| ((((C.sext 32 64 (C.asr 32 (metadata_byte raw_metadata 6) 4)) &&& 3) <<< 16) % 18446744073709551616))
