/-- translated from a fragment of `smells_like_watford` (dfs/identify.cc) -/
def watford_sector2_in_use (start_sector : Nat) : Bool :=
  (start_sector == 2)
