/-- translated from `le_quad` (dfs/img_hxcmfm.cc) -/
def hxc_le_quad (d : Nat → Nat) : Nat :=
  ((((d 0) ||| (((d 1) <<< 8) % 18446744073709551616)) ||| (((d 2) <<< 16) % 18446744073709551616)) ||| (((d 3) <<< 24) % 18446744073709551616))
