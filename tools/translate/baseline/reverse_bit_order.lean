/-- translated from `reverse_bit_order` (dfs/img_hfe.cc) -/
def reverse_bit_order (in' : Nat) : Nat :=
  let out := 0
  let out := if ((in' &&& 128) != 0) then
    let out := (out ||| 1)
    out
  else
    out
  let out := if ((in' &&& 64) != 0) then
    let out := (out ||| 2)
    out
  else
    out
  let out := if ((in' &&& 32) != 0) then
    let out := (out ||| 4)
    out
  else
    out
  let out := if ((in' &&& 16) != 0) then
    let out := (out ||| 8)
    out
  else
    out
  let out := if ((in' &&& 8) != 0) then
    let out := (out ||| 16)
    out
  else
    out
  let out := if ((in' &&& 4) != 0) then
    let out := (out ||| 32)
    out
  else
    out
  let out := if ((in' &&& 2) != 0) then
    let out := (out ||| 64)
    out
  else
    out
  let out := if ((in' &&& 1) != 0) then
    let out := (out ||| 128)
    out
  else
    out
  ((out) % 256)
