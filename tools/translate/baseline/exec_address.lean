/-- translated from `exec_address` (dfs/dfs_catalog.cc) -/
def exec_address (raw_metadata : Nat → Nat) : Nat :=
  ((metadata_word raw_metadata 2) ||| ((((C.sext 32 64 (C.asr 32 (metadata_byte raw_metadata 6) 6)) &&& 3) <<< 16) % 18446744073709551616))
