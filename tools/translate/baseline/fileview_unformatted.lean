/-- translated from a fragment of `read_block` (dfs/img_fileio.cc) -/
def fileview_unformatted (take : Nat) : Bool :=
  (0 == take)
