/-- value of `Format::HDFS` (dfs/dfs_catalog.cc) -/
def enum_Format_HDFS : Nat := 0

/-- value of `Format::DFS` (dfs/dfs_catalog.cc) -/
def enum_Format_DFS : Nat := 1

/-- value of `Format::WDFS` (dfs/dfs_catalog.cc) -/
def enum_Format_WDFS : Nat := 2

/-- value of `Format::OpusDDOS` (dfs/dfs_catalog.cc) -/
def enum_Format_OpusDDOS : Nat := 3
