/-- translated from a fragment of `read_block` (dfs/img_fileio.cc) -/
def fileview_beyond (total : Nat) (sector : Nat) : Bool :=
  (decide (sector >= total))
