/-- translated from `load_address` (dfs/dfs_catalog.cc) -/
def load_address (raw_metadata : Nat → Nat) : Nat :=
  let address := (metadata_word raw_metadata 0)
  let address := (address ||| ((((C.sext 32 64 (C.asr 32 (metadata_byte raw_metadata 6) 2)) &&& 3) <<< 16) % 18446744073709551616))
  address
