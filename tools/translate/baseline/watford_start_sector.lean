/-- translated from a fragment of `smells_like_watford` (dfs/identify.cc) -/
def watford_start_sector (buf1 : Nat → Nat) (pos : Nat) : Nat :=
  ((buf1 ((pos + 7) % 4294967296)) ||| ((((buf1 ((pos + 6) % 4294967296)) &&& 3) <<< 8) % 4294967296))
