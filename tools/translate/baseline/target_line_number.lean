/-- translated from `print_target_line_number` (basic/lines.c) -/
def target_line_number (b1 : Nat) (b2 : Nat) (b3 : Nat) : Nat :=
  let mask := 192
  let lo := (((b2 ^^^ (((((b1 <<< 2) % 4294967296)) % 256) &&& mask))) % 256)
  let hi := (((b3 ^^^ ((((b1 <<< 4) % 4294967296)) % 256))) % 256)
  let n := ((((hi * 256) % 4294967296) + lo) % 4294967296)
  n
