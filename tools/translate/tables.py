"""Table/site generators (token tables, assert sites, verbose sites).  Filled in incrementally."""

def generate(repo, out, report, write_if_changed):
    pass
