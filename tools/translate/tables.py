"""Table generators: BASIC token tables (extracted by compiling /repo/basic/tokens.c
with tools/translate/dump_tokens.c and running it), the golden token map of the
repo as the documented table, assert sites, verbose sites."""
import os
import re
import subprocess
import tempfile

HERE = os.path.dirname(os.path.abspath(__file__))
MAPS = ['base', 'c6', 'c7', 'c8']
DIALECT_NAMES = {0: '6502', 1: 'Z80', 2: 'ARM', 3: 'Windows', 4: 'Mac', 5: 'PDP11'}


def lean_tok(kind, hexs):
    if kind == 'str':
        return '.str [%s]' % ', '.join(str(b) for b in bytes.fromhex(hexs))
    return {'invalid': '.invalid', 'linenum': '.lineNum', 'fastvar': '.fastvar', 'ext': '.ext', 'pdp': '.pdp', 'null': '.null'}[kind]


def extract_tokens(repo):
    with tempfile.TemporaryDirectory(prefix='beebtok-') as d:
        exe = os.path.join(d, 'dump_tokens')
        p = subprocess.run(['gcc', '-std=gnu11', '-w', '-I', os.path.join(repo, 'basic'), '-o', exe,
                            os.path.join(HERE, 'dump_tokens.c'), os.path.join(repo, 'basic', 'tokens.c')],
                           capture_output=True, text=True)
        if p.returncode != 0:
            raise RuntimeError('cannot compile token extractor: ' + p.stderr[-800:])
        out = subprocess.run([exe], capture_output=True, text=True, timeout=20).stdout
    tables = {}
    names = []
    for line in out.split('\n'):
        f = line.split(' ')
        if f[0] == 'T':
            tables.setdefault((int(f[1]), f[2]), {})[int(f[3])] = (f[4], f[5] if len(f) > 5 else '')
        elif f[0] == 'N':
            nm = line[2:line.rindex(' ')]
            names.append((nm, None if f[-1] == '-' else int(f[-1])))
    return tables, names


def parse_golden(path):
    """golden-token-map.txt -> {(dialect name, map): {idx: (kind, hex)}} , synonyms"""
    tables = {}
    syn = {}
    for line in open(path, encoding='latin-1'):
        line = line.rstrip('\n')
        m = re.match(r'^dialect (\S+)=(\S+)$', line)
        if m:
            syn[m.group(1)] = m.group(2)
            continue
        m = re.match(r'^(\S+) \((\w+) map\): 0x([0-9A-F]{2})->(.*)$', line)
        if m:
            d, mp, idx, dest = m.group(1), m.group(2), int(m.group(3), 16), m.group(4)
            if dest == '(maps to itself)':
                ent = ('str', bytes([idx]).hex())
            elif dest == '__invalid__':
                ent = ('invalid', '')
            elif dest == '__line_num__':
                ent = ('linenum', '')
            elif dest == '__fastvar__':
                ent = ('fastvar', '')
            elif dest in ('__c6__', '__c7__', '__c8__'):
                ent = ('ext', '')
            elif dest == '__pdp__':
                ent = ('pdp', '')
            else:
                ent = ('str', dest.encode('latin-1').hex())
            tables.setdefault((d, mp), {})[idx] = ent
            continue
        m = re.match(r'^(\S+) \((\w+) map\): dialect has no valid tokens', line)
        if m:
            tables[(m.group(1), m.group(2))] = {i: ('invalid', '') for i in range(256)}
    return tables, syn


def table_text(name, tables, keyf):
    parts = []
    for d in range(6):
        rows = []
        for mp in MAPS:
            t = tables.get(keyf(d, mp), {})
            rows.append('    #[' + ', '.join(lean_tok(*t.get(i, ('null', ''))) for i in range(256)) + ']')
        parts.append('  #[\n' + ',\n'.join(rows) + '\n  ]')
    return 'def %s : Array (Array (Array Tok)) := #[\n%s\n]\n' % (name, ',\n'.join(parts))


PURE_CALLS = {'valid', 'size', 'back', 'file_length', 'max', 'strlen', 'get', 'disc_format', 'reverse_bit_order', 'has_value',
              'is_sorted', 'begin', 'end', 'is_drive_connected', 'drive', 'empty', 'sizeof', 'start_sector', 'assert',
              'numeric_limits', 'static_cast', 'unsigned', 'const', 'char', 'int', 'defined'}


def strip_c_comments(src):
    out = []
    i = 0
    n = len(src)
    while i < n:
        if src.startswith('//', i):
            j = src.find('\n', i)
            i = n if j < 0 else j
        elif src.startswith('/*', i):
            j = src.find('*/', i + 2)
            seg = src[i:(n if j < 0 else j + 2)]
            out.append('\n' * seg.count('\n'))
            i = n if j < 0 else j + 2
        elif src[i] == '"':
            j = i + 1
            while j < n and src[j] != '"':
                j += 2 if src[j] == '\\' else 1
            out.append('"' + 's' * max(0, j - i - 1) + '"')
            i = j + 1
        elif src[i] == "'":
            j = i + 1
            while j < n and src[j] != "'":
                j += 2 if src[j] == '\\' else 1
            out.append("'c'")
            i = j + 1
        else:
            out.append(src[i])
            i += 1
    return ''.join(out)


def scan_asserts(repo):
    sites = []
    files = []
    for d in ('dfs', 'basic'):
        for f in sorted(os.listdir(os.path.join(repo, d))):
            if f.endswith(('.cc', '.c', '.h')):
                files.append(os.path.join(d, f))
    for rel in files:
        raw = open(os.path.join(repo, rel), encoding='latin-1').read()
        src = strip_c_comments(raw)
        for m in re.finditer(r'(?<![A-Za-z0-9_])assert\s*\(', src):
            i = m.end()
            depth = 1
            while i < len(src) and depth:
                depth += {'(': 1, ')': -1}.get(src[i], 0)
                i += 1
            arg = src[m.end():i - 1]
            line = src.count('\n', 0, m.start()) + 1
            flat = ' '.join(arg.split())
            t = re.sub(r'==|!=|<=|>=|->', ' ', flat)
            reasons = []
            if '=' in t:
                reasons.append('assignment')
            if '++' in flat or '--' in flat:
                reasons.append('increment/decrement')
            for c in re.findall(r'([A-Za-z_][A-Za-z0-9_]*)\s*\(', flat):
                if c not in PURE_CALLS:
                    reasons.append('call to %s()' % c)
            if 'new ' in flat or 'delete ' in flat:
                reasons.append('new/delete')
            sites.append({'file': rel, 'line': line, 'text': flat[:160], 'pure': not reasons, 'why': reasons})
    return sites


def scan_ndebug_regions(repo):
    """every preprocessor conditional that tests NDEBUG: the lines it guards are compiled into one build only.  A region is
    `pure` when those lines hold nothing but assert(...) statements, #include lines and blank lines."""
    regs = []
    for d in ('dfs', 'basic'):
        for f in sorted(os.listdir(os.path.join(repo, d))):
            if not f.endswith(('.cc', '.c', '.h')):
                continue
            rel = os.path.join(d, f)
            lines = strip_c_comments(open(os.path.join(repo, rel), encoding='latin-1').read()).split('\n')
            stack = []          # (is_ndebug_region, start line, body lines)
            for ln, l in enumerate(lines, 1):
                t = l.strip()
                if re.match(r'#\s*(if|ifdef|ifndef)\b', t):
                    stack.append([bool(re.search(r'\bNDEBUG\b', t)), ln, [], t])
                elif re.match(r'#\s*(elif|else)\b', t):
                    if stack:
                        if re.search(r'\bNDEBUG\b', t):
                            stack[-1][0] = True
                        if stack[-1][0]:
                            stack[-1][2].append('')      # the other branch belongs to the same region
                elif re.match(r'#\s*endif\b', t):
                    if stack:
                        isn, start, body, head = stack.pop()
                        if isn:
                            code = [b for b in body if b.strip()]
                            impure = [b for b in code if not re.match(r'^\s*(assert\s*\(.*\)\s*;|#\s*include\b.*)\s*$', b)]
                            regs.append({'file': rel, 'line': start, 'pure': not impure, 'text': (head + ' … ' + ' '.join(' '.join(code).split()))[:160]})
                        elif stack and stack[-1][0]:
                            pass
                else:
                    for fr in stack:
                        if fr[0]:
                            fr[2].append(l)
    return regs


def stmt_after(src, i):
    """the statement or block starting at src[i:] (after an if-condition): returns text"""
    n = len(src)
    while i < n and src[i].isspace():
        i += 1
    if i < n and src[i] == '{':
        depth = 0
        j = i
        while j < n:
            depth += {'{': 1, '}': -1}.get(src[j], 0)
            j += 1
            if depth == 0:
                break
        return src[i:j]
    j = src.find(';', i)
    return src[i:(n if j < 0 else j + 1)]


def scan_verbose(repo):
    sites = []
    for rel in sorted(os.path.join('dfs', f) for f in os.listdir(os.path.join(repo, 'dfs')) if f.endswith(('.cc', '.h'))):
        src = strip_c_comments(open(os.path.join(repo, rel), encoding='latin-1').read())
        for m in re.finditer(r'(?<![A-Za-z0-9_])(DFS::)?verbose(?![A-Za-z0-9_])', src):
            line = src.count('\n', 0, m.start()) + 1
            before = src[max(0, m.start() - 40):m.start()]
            after = src[m.end():m.end() + 40]
            ctxt = ' '.join((before[-30:] + m.group(0) + after[:12]).split())
            kind = None
            problems = []
            if re.search(r'if\s*\(\s*!?\s*$', before) and re.match(r'\s*\)', after):
                negated = bool(re.search(r'!\s*$', before))
                # position just after the closing parenthesis
                k = m.end() + after.index(')') + 1
                if negated:
                    body = stmt_after(src, k)
                    kind = 'guard-return'
                    if not re.match(r'\s*\{?\s*return\s*;', body):
                        problems.append('negated verbose test that is not a plain early return')
                    # the rest of the function is verbose-only: find the end of the enclosing function body
                    depth = 0
                    j = k
                    while j < len(src):
                        if src[j] == '{':
                            depth += 1
                        elif src[j] == '}':
                            if depth == 0:
                                break
                            depth -= 1
                        j += 1
                    body = src[k:j]
                    if re.search(r'(?<![A-Za-z0-9_])(std::)?cout(?![A-Za-z0-9_])', body):
                        problems.append('writes to cout')
                else:
                    body = stmt_after(src, k)
                    kind = 'if-verbose'
                    if re.search(r'(?<![A-Za-z0-9_])(std::)?cout(?![A-Za-z0-9_])', body):
                        problems.append('writes to cout')
                    if re.search(r'(?<![A-Za-z0-9_])(return|break|continue|throw|goto|exit|abort)(?![A-Za-z0-9_])', body):
                        problems.append('changes control flow')
                    t = re.sub(r'==|!=|<=|>=|<<=|>>=', ' ', body)
                    if re.search(r'[^<>=!]=[^=]', t) or '++' in body or '--' in body:
                        problems.append('assigns or increments')
                    # an else branch makes the non-verbose path depend on the flag too
                    rest = src[k + len(body):k + len(body) + 20]
                    if re.match(r'\s*else(?![A-Za-z0-9_])', rest):
                        problems.append('has an else branch')
            elif re.search(r'(bool|extern\s+bool)\s+$', before) or re.search(r'bool\s+(DFS::)?$', before):
                kind = 'declaration'
            elif re.match(r'\s*=\s*true\s*;', after) and rel.endswith('main.cc'):
                kind = 'set-by-option'
            elif re.match(r'\s*(=\s*false\s*;)', after):
                kind = 'definition'
            elif re.search(r'[(,]\s*$', before) and re.match(r'\s*[,)]', after):
                kind = 'argument'
            elif re.search(r'"\s*$', before) or re.search(r'\{\s*"$', before):
                kind = 'string'
            else:
                kind = 'other-use'
                problems.append('verbose used outside a plain if(verbose) test')
            sites.append({'file': rel, 'line': line, 'kind': kind, 'ok': not problems, 'why': problems, 'text': ctxt[:100]})
    return sites


def generate(repo, out, report, write_if_changed):
    problems = report.setdefault('table_problems', [])
    try:
        sites = scan_asserts(repo)
        def esc(t):
            return t.replace('\\', '\\\\').replace('"', '\\"')
        body = ',\n'.join('  { file := "%s", line := %d, pure := %s, text := "%s" }' % (x['file'], x['line'], 'true' if x['pure'] else 'false', esc(x['text'])) for x in sites)
        hdr = ('/- GENERATED by tools/translate/tables.py: every assert(...) in /repo/dfs and /repo/basic with the translator\'s\n'
               '   purity verdict for its argument (impure = contains an assignment, an increment or decrement, new or delete, or a call to a function\n'
               '   that is not on the list of known side-effect-free accessors). -/\n'
               'namespace Beeb.Gen\n\nstructure AssertSite where\n  file : String\n  line : Nat\n  pure : Bool\n  text : String\nderiving Repr\n\n')
        regs = scan_ndebug_regions(repo)
        rbody = ',\n'.join('  { file := "%s", line := %d, pure := %s, text := "%s" }' % (x['file'], x['line'], 'true' if x['pure'] else 'false', esc(x['text'])) for x in regs)
        rtxt = ('\n/-- every `#if`/`#ifdef`/`#ifndef`/`#elif` that tests NDEBUG, with a purity verdict for the lines it guards (pure = nothing\n'
                '    but assert(...) statements, #include lines and blank lines: anything else is code that exists in one build only) -/\n'
                'def ndebugRegions : List AssertSite := [\n' + rbody + '\n]\n')
        write_if_changed(os.path.join(out, 'Asserts.lean'), hdr + 'def assertSites : List AssertSite := [\n' + body + '\n]\n' + rtxt + '\nend Beeb.Gen\n')
        report['tables']['ndebug_regions'] = {'regions': len(regs), 'impure': [x for x in regs if not x['pure']]}
        report['tables']['asserts'] = {'sites': len(sites), 'impure': [x for x in sites if not x['pure']]}
    except Exception as e:
        problems.append({'property': 'C19', 'what': 'assert scan failed: %s' % e})
    try:
        vs = scan_verbose(repo)
        def esc2(t):
            return t.replace('\\', '\\\\').replace('"', '\\"')
        body = ',\n'.join('  { file := "%s", line := %d, kind := "%s", ok := %s, text := "%s" }' % (x['file'], x['line'], x['kind'], 'true' if x['ok'] else 'false', esc2(x['text'])) for x in vs)
        hdr = ('/- GENERATED by tools/translate/tables.py: every use of the `verbose` flag in /repo/dfs.  A site is ok when it is a\n'
               '   declaration, an argument, the option handler, or a plain `if (verbose)` whose body only writes to cerr (no cout,\n'
               '   no return/break/continue/throw, no assignment, no else branch), or an `if (!verbose) return;` guard of a cerr-only helper. -/\n'
               'namespace Beeb.Gen\n\nstructure VerboseSite where\n  file : String\n  line : Nat\n  kind : String\n  ok : Bool\n  text : String\nderiving Repr\n\n')
        write_if_changed(os.path.join(out, 'VerboseSites.lean'), hdr + 'def verboseSites : List VerboseSite := [\n' + body + '\n]\n\nend Beeb.Gen\n')
        report['tables']['verbose'] = {'sites': len(vs), 'bad': [x for x in vs if not x['ok']]}
    except Exception as e:
        problems.append({'property': 'C18', 'what': 'verbose-site scan failed: %s' % e})
    try:
        tables, names = extract_tokens(repo)
        body = table_text('tokTable', tables, lambda d, mp: (d, mp))
        nm = 'def dialectOfName : List (String × Nat) := [%s]\n' % ', '.join('("%s", %d)' % (n, v) for n, v in names if v is not None)
        hdr = ('/- GENERATED by tools/translate/tables.py: the token maps build_mapping() of the current\n'
               '   /repo/basic/tokens.c produces (dialect index 0..5 = 6502, Z80, ARM, Windows, Mac, PDP11; map 0..3 = base, c6, c7, c8). -/\n'
               'import Beeb.Model.Tok\n\nnamespace Beeb.Gen\nopen Beeb\n\n')
        write_if_changed(os.path.join(out, 'Tokens.lean'), hdr + body + '\n' + nm + '\nend Beeb.Gen\n')
        report['tables']['tokens'] = {'entries': sum(len(v) for v in tables.values()), 'names': len(names)}
    except Exception as e:
        problems.append({'property': 'C03', 'what': 'token table extraction failed: %s' % e})
    try:
        g, syn = parse_golden(os.path.join(repo, 'basic', 'testdata', 'golden-token-map.txt'))
        rev = {v: k for k, v in DIALECT_NAMES.items()}
        body = table_text('docTable', g, lambda d, mp: (DIALECT_NAMES[d], mp))
        hdr = ('/- GENERATED by tools/translate/tables.py from /repo/basic/testdata/golden-token-map.txt\n'
               '   (the repository\'s published token map, i.e. the tables of doc/bbcbasic.5 in machine-readable form). -/\n'
               'import Beeb.Model.Tok\n\nnamespace Beeb.Spec\nopen Beeb\n\n')
        write_if_changed(os.path.join(out, 'TokensDoc.lean'), hdr + body + '\nend Beeb.Spec\n')
        report['tables']['golden'] = {'entries': sum(len(v) for v in g.values()), 'synonyms': syn}
    except Exception as e:
        problems.append({'property': 'C03', 'what': 'golden token map could not be parsed: %s' % e})
