/* Table extractor run by tools/translate/tables.py: links against /repo's
   basic/tokens.c (current working tree) and prints every dialect's four maps
   in a machine-readable form, plus the dialect-name table. */
#include <stdio.h>
#include <string.h>
#include "decoder.h"
#include "tokens.h"

extern const char ext_c6[], ext_c7[], ext_c8[], identity[], end_marker[];

static void dump(const char *map, int d, const char **m)
{
  for (unsigned i = 0; i < 256; ++i)
    {
      const char *s = m[i];
      const char *kind = "str";
      if (s == NULL) kind = "null";
      else if (s == invalid) kind = "invalid";
      else if (s == line_num) kind = "linenum";
      else if (s == fastvar) kind = "fastvar";
      else if (s == ext_c6 || s == ext_c7 || s == ext_c8) kind = "ext";
      else if (s == pdp_c8) kind = "pdp";
      printf("T %d %s %u %s ", d, map, i, kind);
      if (s && !strcmp(kind, "str"))
	for (const unsigned char *p = (const unsigned char *)s; *p; ++p) printf("%02x", *p);
      printf("\n");
    }
}

int main(void)
{
  static const char *names[] = {"6502", "PDP11", "32000", "Z80", "8086", "ARM", "Windows", "SDL", "MacOSX", "Mac",
				"6502 ", "", "arm", "z80", "BBC", "65C02", "windows", NULL};
  for (int d = 0; d < NUM_DIALECTS; ++d)
    {
      static struct expansion_map m;
      memset(&m, 0, sizeof m);
      if (!build_mapping((unsigned)d, &m)) return 1;
      dump("base", d, m.base);
      dump("c6", d, m.c6);
      dump("c7", d, m.c7);
      dump("c8", d, m.c8);
    }
  for (const char **n = names; *n; ++n)
    {
      enum Dialect d;
      if (set_dialect(*n, &d)) printf("N %s %d\n", *n, (int)d);
      else printf("N %s -\n", *n);
    }
  return 0;
}
