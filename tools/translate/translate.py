#!/usr/bin/env python3
"""Regenerate lean/Beeb/Generated/*.lean from /repo's current working tree.

Usage: translate.py [--repo /repo] [--out /verif/lean/Beeb/Generated]
Writes a JSON report (translated / skipped leaves) to <out>/report.json.
A leaf that cannot be translated falls back to the pinned baseline rendering in
tools/translate/baseline/<leaf>.lean and is reported as a translator-skip;
checks that depend on that leaf then count the tie as broken.
"""
import argparse
import hashlib
import json
import os
import re
import sys

HERE = os.path.dirname(os.path.abspath(__file__))
sys.path.insert(0, HERE)
import cleaf  # noqa: E402

ARR = 'Nat → Nat'

# Order matters: callees before callers.
LEAVES = [
    dict(cname='metadata_byte', lean='metadata_byte', file='dfs/dfs_catalog.cc', members={'raw_metadata_': 'raw_metadata'}, ptypes={'raw_metadata': ARR}),
    dict(cname='metadata_word', lean='metadata_word', file='dfs/dfs_catalog.cc', members={'raw_metadata_': 'raw_metadata'}, ptypes={'raw_metadata': ARR}),
    dict(cname='load_address', lean='load_address', file='dfs/dfs_catalog.cc', members={'raw_metadata_': 'raw_metadata'}, ptypes={'raw_metadata': ARR}),
    dict(cname='exec_address', lean='exec_address', file='dfs/dfs_catalog.cc', members={'raw_metadata_': 'raw_metadata'}, ptypes={'raw_metadata': ARR}),
    dict(cname='file_length', lean='file_length', file='dfs/dfs_catalog.cc', members={'raw_metadata_': 'raw_metadata'}, ptypes={'raw_metadata': ARR}),
    dict(cname='start_sector', lean='start_sector', file='dfs/dfs_catalog.cc', members={'raw_metadata_': 'raw_metadata'}, ptypes={'raw_metadata': ARR}, nparams=0),
    dict(cname='directory', lean='directory', file='dfs/dfs_catalog.cc', members={'raw_name_': 'raw_name'}, ptypes={'raw_name': ARR}, nparams=0),
    dict(cname='is_locked', lean='is_locked', file='dfs/dfs_catalog.cc', members={'raw_name_': 'raw_name'}, ptypes={'raw_name': ARR}, ret='Bool', nparams=0),
    dict(cname='sector_count', lean='sector_count', file='dfs/dfs_catalog.cc'),
    dict(cname='last_sector', lean='last_sector', file='dfs/dfs_catalog.cc', members={'raw_metadata_': 'raw_metadata'}, ptypes={'raw_metadata': ARR},
         consts={'SECTOR_BYTES': 256}, nparams=0),
    dict(cname='sign_extend', lean='sign_extend', file='dfs/dfs_catalog.cc'),
    dict(cname='byte_to_ascii7', lean='byte_to_ascii7', file='dfs/dfs_catalog.cc'),
    dict(cname='crc_cycle', lean='crc_cycle', file='dfs/crc16.cc'),
    dict(cname='opposite_surface', lean='opposite_surface', file='dfs/driveselector.cc', members={'d_': 'd'}, ctor_returns=True),
    dict(cname='read_block', lean='fileview_pos', file='dfs/img_fileio.cc', var_init='pos', mangled='FileView',
         members={'initial_skip_': 'initial_skip', 'take_': 'take', 'leave_': 'leave', 'total_': 'total'}, params=['initial_skip', 'take', 'leave', 'sector']),
    dict(cname='read_block', lean='fileview_unformatted', file='dfs/img_fileio.cc', if_cond=0, ret='Bool', mangled='FileView',
         members={'initial_skip_': 'initial_skip', 'take_': 'take', 'leave_': 'leave', 'total_': 'total'}, params=['take']),
    dict(cname='read_block', lean='fileview_beyond', file='dfs/img_fileio.cc', if_cond=1, ret='Bool', mangled='FileView',
         members={'initial_skip_': 'initial_skip', 'take_': 'take', 'leave_': 'leave', 'total_': 'total'}, params=['total', 'sector']),
    dict(cname='read_block', lean='volume_access_beyond', file='dfs/dfs_volume.cc', if_cond=0, ret='Bool', mangled='Access',
         members={'origin_': 'origin', 'len_': 'len'}, params=['len', 'lba']),
    dict(cname='smells_like_watford', lean='watford_start_sector', file='dfs/identify.cc', var_init='start_sector', params=['buf1', 'pos'], ptypes={'buf1': ARR}),
    dict(cname='smells_like_watford', lean='watford_sector2_in_use', file='dfs/identify.cc', if_cond=0, ret='Bool', params=['start_sector']),
    dict(cname='get_dfs_sector_count', lean='get_dfs_sector_count', file='dfs/identify.cc', ptypes={'sec1': ARR}),
    dict(cname='get_hdfs_sector_count', lean='get_hdfs_sector_count', file='dfs/identify.cc', ptypes={'sec1': ARR}),
    dict(cname='total_sectors', lean='geometry_total_sectors', file='dfs/geometry.cc', members={'cylinders': 'cylinders', 'heads': 'heads', 'sectors': 'sectors'}, nparams=0),
    dict(cname='catalog_sectors_for_format', lean='catalog_sectors_for_format', file='dfs/dfs_catalog.cc'),
    dict(cname='data_sectors_reserved_for_catalog', lean='data_sectors_reserved_for_catalog', file='dfs/dfs_catalog.cc'),
    dict(cname='max_file_count', lean='max_file_count', file='dfs/dfs_catalog.cc', callparams={'disc_format': 'fmt'}, params=['fmt']),
    dict(cname='smells_like_hdfs', lean='smells_like_hdfs', file='dfs/identify.cc', ptypes={'sec1': ARR}, ret='Bool'),
    dict(cname='print_target_line_number', lean='target_line_number', file='basic/lines.c', upto_var='n'),
    # flux containers: the small integer functions of img_hfe.cc / img_hxcmfm.cc / track.h
    dict(cname='reverse_bit_order', lean='reverse_bit_order', file='dfs/img_hfe.cc'),
    dict(cname='track_len', lean='pictrack_len', file='dfs/img_hfe.cc', members={'track_len_': 'track_len_'}, nparams=0),
    dict(cname='is_hfe3_opcode', lean='is_hfe3_opcode', file='dfs/img_hfe.cc', ret='Bool'),
    dict(cname='le_word', lean='hfe_le_word', file='dfs/img_hfe.cc', ptypes={'d': ARR}, mangled='PKh'),
    dict(cname='le_word', lean='hxc_le_word', file='dfs/img_hxcmfm.cc', ptypes={'d': ARR}),
    dict(cname='le_quad', lean='hxc_le_quad', file='dfs/img_hxcmfm.cc', ptypes={'d': ARR}),
    dict(cname='raw_pos', lean='bitstream_raw_pos', file='dfs/img_hfe.cc', members={'stride_': 'stride_', 'first_': 'first_'}),
]


ENUMS = [('dfs/dfs_catalog.cc', 'Format', ['HDFS', 'DFS', 'WDFS', 'OpusDDOS'])]
ENUM_BASELINE = {('Format', 'HDFS'): 0, ('Format', 'DFS'): 1, ('Format', 'WDFS'): 2, ('Format', 'OpusDDOS'): 3}


def gen_leaves(repo, out, report):
    tr = cleaf.Translator(repo)
    parts = []
    for spec in LEAVES:
        tr.leaves[spec['cname']] = spec
        base = os.path.join(HERE, 'baseline', spec['lean'] + '.lean')
        try:
            text = tr.function(spec)
            report['translated'].append(spec['lean'])
        except cleaf.Untranslatable as e:
            report['skipped'].append({'leaf': spec['lean'], 'reason': str(e)})
            if os.path.exists(base):
                text = '-- TRANSLATOR-SKIP (%s): pinned baseline rendering\n' % str(e).replace('\n', ' ') + open(base).read()
            else:
                text = '-- TRANSLATOR-SKIP (%s): no baseline available\n' % e
        parts.append((spec['lean'], text))
    # enumerators the hand-written model refers to by name: their values as the current source declares them
    for (efile, ename, consts) in ENUMS:
        lines = []
        for c in consts:
            v = tr.enum_value({'file': efile}, {'type': {'qualType': ename}}, c)
            if v is None:
                report['skipped'].append({'leaf': 'enum_%s_%s' % (ename, c), 'reason': 'enumerator not found in %s' % efile})
                v = ENUM_BASELINE[(ename, c)]
            else:
                report['translated'].append('enum_%s_%s' % (ename, c))
            lines.append('/-- value of `%s::%s` (%s) -/\ndef enum_%s_%s : Nat := %d\n' % (ename, c, efile, ename, c, v))
        parts.append(('enum_' + ename, '\n'.join(lines)))
    hdr = ('/- GENERATED by tools/translate/translate.py from the current /repo working tree.\n'
           '   Do not edit; regenerated on every check run. -/\n'
           'import Beeb.Model.CInt\n\nnamespace Beeb.Gen\n\n')
    # A translation that does not elaborate (e.g. the C++ now uses a construct the translator renders
    # badly) must not take the whole model down: such a leaf falls back to its baseline like any other skip.
    for _ in range(len(parts) + 1):
        text = hdr + '\n'.join(t for _, t in parts) + '\nend Beeb.Gen\n'
        bad = elaboration_errors(text, out)
        if not bad:
            break
        lines = text.split('\n')
        start = len(hdr.split('\n')) - 1
        spans = []
        for name, t in parts:
            n = len(t.split('\n'))
            spans.append((name, start + 1, start + n))
            start += n
        hit = set()
        for (ln, msg) in bad:
            for (name, a, b) in spans:
                if a <= ln <= b:
                    hit.add((name, msg))
        if not hit:
            break
        for (name, msg) in hit:
            base = os.path.join(HERE, 'baseline', name + '.lean')
            if any(sk['leaf'] == name for sk in report['skipped']):
                continue
            report['skipped'].append({'leaf': name, 'reason': 'generated Lean does not elaborate: ' + msg[:200]})
            if name in report['translated']:
                report['translated'].remove(name)
            repl = ('-- TRANSLATOR-SKIP (does not elaborate: %s): pinned baseline rendering\n' % msg[:120].replace('\n', ' ') + open(base).read()) if os.path.exists(base) else '-- TRANSLATOR-SKIP: no baseline\n'
            parts = [(n, repl if n == name else t) for (n, t) in parts]
    write_if_changed(os.path.join(out, 'Leaf.lean'), hdr + '\n'.join(t for _, t in parts) + '\nend Beeb.Gen\n')
    return dict(parts)


def elaboration_errors(text, out):
    """[(line, message)] from running Lean on the candidate Leaf.lean (in a scratch file next to the real one)"""
    import re, subprocess, tempfile
    lean_dir = os.path.abspath(os.path.join(out, '..', '..'))
    fd, tmp = tempfile.mkstemp(suffix='.lean', prefix='LeafCandidate', dir=tempfile.gettempdir())
    try:
        with os.fdopen(fd, 'w') as f:
            f.write(text)
        r = subprocess.run(['lake', 'env', 'lean', tmp], cwd=lean_dir, capture_output=True, text=True, timeout=300)
        errs = []
        for m in re.finditer(r'^[^\n:]*:(\d+):\d+: error[^:\n]*: ([^\n]*)', r.stdout + r.stderr, re.M):
            errs.append((int(m.group(1)), m.group(2)))
        return errs
    finally:
        os.unlink(tmp)


def write_if_changed(path, text):
    if os.path.exists(path) and open(path).read() == text:
        return False
    os.makedirs(os.path.dirname(path), exist_ok=True)
    tmp = path + '.tmp%d' % os.getpid()
    with open(tmp, 'w') as f:
        f.write(text)
    os.replace(tmp, path)
    return True


def main():
    ap = argparse.ArgumentParser()
    ap.add_argument('--repo', default='/repo')
    ap.add_argument('--out', default=os.path.join(HERE, '..', '..', 'lean', 'Beeb', 'Generated'))
    ap.add_argument('--write-baseline', action='store_true')
    a = ap.parse_args()
    out = os.path.abspath(a.out)
    report = {'translated': [], 'skipped': [], 'tables': {}}
    parts = gen_leaves(a.repo, out, report)
    if a.write_baseline:
        os.makedirs(os.path.join(HERE, 'baseline'), exist_ok=True)
        for name, text in parts.items():
            if 'TRANSLATOR-SKIP' not in text:
                with open(os.path.join(HERE, 'baseline', name + '.lean'), 'w') as f:
                    f.write(text)
    import tables
    tables.generate(a.repo, out, report, write_if_changed)
    with open(os.path.join(out, 'report.json'), 'w') as f:
        json.dump(report, f, indent=1, sort_keys=True)
    print(json.dumps({'translated': len(report['translated']), 'skipped': report['skipped']}))


if __name__ == '__main__':
    main()
