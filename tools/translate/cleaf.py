#!/usr/bin/env python3
"""Translate straight-line C/C++ integer functions ("leaves") from clang's
typed JSON AST into Lean 4 definitions over Nat with C's integer semantics.

Every C integer value of width w is represented by the natural number in
[0, 2^w) holding its two's-complement bit pattern.  Operations that C defines
modulo 2^w (or that wrap de facto) get an explicit `% 2^w`; sign-sensitive
operations (>>, /, %, <, widening casts of signed values) go through the
helpers of Beeb/Model/CInt.lean (C.sext, C.asr, C.sdiv, C.srem, C.slt, C.sle).

Supported statement shapes: declarations with initialisers, (compound)
assignments to locals, if/else with returns or with assignments, return,
switch whose cases return, `for (T k = a; k < N; k++)` with constant bounds
(unrolled as a fold), expression statements that are assignments.
Anything else raises Untranslatable, which the caller records as a
translator-skip for that leaf.
"""
import json
import re
import subprocess
import sys


class Untranslatable(Exception):
    pass


INT_TYPES = {
    'bool': (1, False),
    '_Bool': (1, False),
    'char': (8, True),
    'signed char': (8, True),
    'unsigned char': (8, False),
    'short': (16, True),
    'unsigned short': (16, False),
    'int': (32, True),
    'unsigned int': (32, False),
    'unsigned': (32, False),
    'long': (64, True),
    'unsigned long': (64, False),
    'long long': (64, True),
    'unsigned long long': (64, False),
}


def ctype(node):
    t = node.get('type', {})
    q = t.get('desugaredQualType') or t.get('qualType')
    if q is None:
        raise Untranslatable('node without type: %s' % node.get('kind'))
    q = q.replace('const ', '').replace('volatile ', '').strip()
    if q.endswith('&'):
        q = q[:-1].strip()
    if q in INT_TYPES:
        return INT_TYPES[q]
    if q.startswith('enum ') or 'enum' in q:
        return (32, True)
    raise Untranslatable('unsupported type %r' % q)


def is_bool(node):
    t = node.get('type', {})
    q = (t.get('desugaredQualType') or t.get('qualType') or '').replace('const ', '').strip()
    return q in ('bool', '_Bool')


def lean_ident(name):
    name = name.rstrip('_') if name.endswith('_') else name
    if name in ('end', 'at', 'from', 'in', 'by', 'then', 'else', 'do', 'have', 'show', 'fun', 'let', 'open', 'instance', 'where', 'with', 'match', 'deriving', 'def', 'theorem', 'namespace', 'section', 'prefix', 'local'):
        name = name + "'"
    return name


class Ctx:
    """Translation context for one function."""

    def __init__(self, tr, spec):
        self.tr = tr
        self.spec = spec
        self.members = spec.get('members', {})     # member name -> lean param name
        self.consts = spec.get('consts', {})       # global const name -> int


class Translator:
    def __init__(self, repo, clang='clang++-14'):
        self.repo = repo
        self.clang = clang
        self.cache = {}
        self.leaves = {}   # C name -> spec

    def ast(self, file, filt, lang_flags):
        key = (file, filt, tuple(lang_flags))
        if key in self.cache:
            return self.cache[key]
        cmd = [self.clang if not file.endswith('.c') else self.clang.replace('clang++', 'clang')] + list(lang_flags) + [
            '-fsyntax-only', '-DNDEBUG', '-Xclang', '-ast-dump=json',
            '-Xclang', '-ast-dump-filter=' + filt, file]
        p = subprocess.run(cmd, cwd=self.repo, capture_output=True, text=True)
        out = p.stdout
        if not out.strip():
            raise Untranslatable('clang produced no AST for %s in %s: %s' % (filt, file, p.stderr[-500:]))
        # The output is a sequence of JSON objects; split them.
        dec = json.JSONDecoder()
        objs = []
        i = 0
        n = len(out)
        while i < n:
            while i < n and out[i].isspace():
                i += 1
            if i >= n:
                break
            obj, j = dec.raw_decode(out, i)
            objs.append(obj)
            i = j
        self.cache[key] = objs
        return objs

    def find_function(self, spec):
        lang = spec.get('flags') or (['-std=gnu++17', '-I', 'dfs'] if spec['file'].endswith(('.cc', '.h')) else ['-std=gnu11', '-I', 'basic'])
        objs = self.ast(spec['file'], spec.get('filter', spec['cname']), lang)
        want = spec['cname']
        cands = []

        def walk(o):
            if isinstance(o, dict):
                if o.get('kind') in ('FunctionDecl', 'CXXMethodDecl') and o.get('name') == want:
                    if any(ch.get('kind') == 'CompoundStmt' for ch in o.get('inner', [])):
                        cands.append(o)
                for ch in o.get('inner', []) or []:
                    walk(ch)
        for o in objs:
            walk(o)
        if spec.get('mangled'):
            cands = [c for c in cands if spec['mangled'] in c.get('mangledName', '')]
        if spec.get('nparams') is not None:
            cands = [c for c in cands if len([p for p in c.get('inner', []) if p.get('kind') == 'ParmVarDecl']) == spec['nparams']]
        if not cands:
            raise Untranslatable('function %s not found in %s' % (want, spec['file']))
        return cands[0]

    def enum_value(self, spec, node, const_name):
        """value of an enumeration constant, read from the declaration of its enum in the same translation unit
        (enumerators without an initialiser count up from the previous one, the first from 0)"""
        qt = node.get('type', {}).get('qualType', '')
        ename = qt.split('::')[-1].strip()
        if not ename or not re.match(r'^\w+$', ename):
            return None
        lang = spec.get('flags') or (['-std=gnu++17', '-I', 'dfs'] if spec['file'].endswith(('.cc', '.h')) else ['-std=gnu11', '-I', 'basic'])
        try:
            objs = self.ast(spec['file'], ename, lang)
        except Untranslatable:
            return None
        found = []

        def walk(o):
            if isinstance(o, dict):
                if o.get('kind') == 'EnumDecl' and o.get('name') == ename and any(c.get('kind') == 'EnumConstantDecl' for c in o.get('inner', [])):
                    found.append(o)
                for ch in o.get('inner', []) or []:
                    walk(ch)
        for o in objs:
            walk(o)
        if not found:
            return None
        val = -1
        for c in found[0].get('inner', []):
            if c.get('kind') != 'EnumConstantDecl':
                continue
            init = None
            for ch in c.get('inner', []) or []:
                # an explicit initialiser: clang records the evaluated value on the ConstantExpr
                if ch.get('kind') == 'ConstantExpr' and 'value' in ch:
                    init = int(ch['value'])
                elif ch.get('kind') == 'IntegerLiteral':
                    init = int(ch['value'])
                elif ch.get('kind') not in (None, 'FullComment'):
                    if init is None:
                        return None         # an initialiser this reader does not understand
            val = init if init is not None else val + 1
            if c.get('name') == const_name:
                return val
        return None

    # ---------------------------------------------------------------- exprs
    def mod(self, e, w):
        return '((%s) %% %d)' % (e, 1 << w)

    def expr(self, n, cx):
        """Return Lean text for the value of expression node n (Nat, or Bool
        if the C type is bool)."""
        k = n['kind']
        inner = n.get('inner', [])
        if k in ('ParenExpr', 'ConstantExpr', 'ExprWithCleanups', 'MaterializeTemporaryExpr', 'CXXBindTemporaryExpr'):
            return self.expr(inner[0], cx)
        if k in ('CXXConstructExpr', 'CXXTemporaryObjectExpr') and cx.spec.get('ctor_returns') and len(inner) == 1:
            return self.expr(inner[0], cx)
        if k == 'CXXFunctionalCastExpr' and n.get('castKind') == 'ConstructorConversion':
            return self.expr(inner[-1], cx)
        if k == 'IntegerLiteral':
            return str(int(n['value']))
        if k == 'CharacterLiteral':
            return str(int(n['value']))
        if k == 'CXXBoolLiteralExpr':
            return 'true' if n['value'] else 'false'
        if k == 'DeclRefExpr':
            ref = n['referencedDecl']
            name = ref['name']
            if ref['kind'] == 'EnumConstantDecl':
                if name in cx.consts:
                    return str(cx.consts[name])
                v = cx.tr.enum_value(cx.spec, n, name)
                if v is not None:
                    return '%d /- %s -/' % (v, name)
                raise Untranslatable('enum constant %s' % name)
            if name in cx.consts:
                return str(cx.consts[name])
            return lean_ident(name)
        if k == 'MemberExpr':
            base = inner[0]
            if base['kind'] == 'CXXThisExpr' or (base['kind'] == 'ImplicitCastExpr' and base['inner'][0]['kind'] == 'CXXThisExpr'):
                name = n['name']
                if name in cx.members:
                    return cx.members[name]
                raise Untranslatable('member %s not declared in leaf spec' % name)
            # struct field of a local (ldiv_t)
            b = self.expr(base, cx)
            if n['name'] == 'quot':
                return '(%s).1' % b
            if n['name'] == 'rem':
                return '(%s).2' % b
            raise Untranslatable('member expr %s' % n.get('name'))
        if k in ('ImplicitCastExpr', 'CStyleCastExpr', 'CXXStaticCastExpr', 'CXXFunctionalCastExpr'):
            ck = n.get('castKind')
            sub = inner[-1]
            if ck in ('LValueToRValue', 'NoOp', 'FunctionToPointerDecay', 'ArrayToPointerDecay', 'ConstructorConversion'):
                return self.expr(sub, cx)
            if ck == 'IntegralCast':
                e = self.expr(sub, cx)
                (w2, s2) = ctype(n)
                if is_bool(sub):
                    return '(if %s then 1 else 0)' % e
                (w1, s1) = ctype(sub)
                if re.fullmatch(r'\d+', e):
                    v = int(e)
                    if s1 and v >= (1 << (w1 - 1)):
                        v = v - (1 << w1)
                    return str(v % (1 << w2))
                if w2 > w1:
                    if s1:
                        return '(C.sext %d %d %s)' % (w1, w2, e)
                    return e
                if w2 < w1:
                    return self.mod(e, w2)
                return e
            if ck == 'IntegralToBoolean':
                e = self.expr(sub, cx)
                return '(%s != 0)' % e
            raise Untranslatable('cast kind %s' % ck)
        if k == 'UnaryOperator':
            op = n['opcode']
            sub = inner[0]
            if op == '!':
                return '(!%s)' % self.expr(sub, cx)
            (w, s) = ctype(n)
            e = self.expr(sub, cx)
            if op == '~':
                return '(%d - %s)' % ((1 << w) - 1, e)
            if op == '-':
                return self.mod('%d - %s' % (1 << w, e), w)
            if op == '+':
                return e
            if op == '*':
                # pointer dereference of a parameter treated as array index 0
                return '(%s 0)' % e
            raise Untranslatable('unary %s' % op)
        if k == 'BinaryOperator':
            op = n['opcode']
            a, b = inner
            if op in ('&&', '||'):
                return '(%s %s %s)' % (self.expr(a, cx), op, self.expr(b, cx))
            if op == ',':
                raise Untranslatable('comma')
            ea, eb = self.expr(a, cx), self.expr(b, cx)
            if op in ('==', '!='):
                return '(%s %s %s)' % (ea, op, eb)
            if op in ('<', '>', '<=', '>='):
                if is_bool(a):
                    raise Untranslatable('bool compare')
                (w, s) = ctype(a)
                if s:
                    f = {'<': 'C.slt %d %s %s' % (w, ea, eb), '>': 'C.slt %d %s %s' % (w, eb, ea),
                         '<=': 'C.sle %d %s %s' % (w, ea, eb), '>=': 'C.sle %d %s %s' % (w, eb, ea)}[op]
                    return '(%s)' % f
                return '(decide (%s %s %s))' % (ea, op, eb)
            (w, s) = ctype(n)
            return self.arith(op, ea, eb, w, s)
        if k == 'ConditionalOperator':
            c, a, b = inner
            return '(if %s then %s else %s)' % (self.expr(c, cx), self.expr(a, cx), self.expr(b, cx))
        if k == 'ArraySubscriptExpr':
            a, i = inner
            return '(%s %s)' % (self.expr(a, cx), self.expr(i, cx))
        if k == 'CXXOperatorCallExpr':
            # operator[] on std::array / SectorBuffer
            callee = inner[0]
            cal = callee
            while cal['kind'] == 'ImplicitCastExpr':
                cal = cal['inner'][0]
            if cal.get('referencedDecl', {}).get('name') == 'operator[]':
                return '(%s %s)' % (self.expr(inner[1], cx), self.expr(inner[2], cx))
            raise Untranslatable('operator call')
        if k == 'CXXMemberCallExpr':
            me = inner[0]
            name = me.get('name')
            args = [self.expr(a, cx) for a in inner[1:] if a['kind'] != 'CXXDefaultArgExpr']
            base = me['inner'][0]
            while base['kind'] in ('ImplicitCastExpr', 'ParenExpr'):
                base = base['inner'][0]
            if base['kind'] != 'CXXThisExpr':
                raise Untranslatable('member call on non-this')
            if name in cx.spec.get('callparams', {}) and not args:
                return cx.spec['callparams'][name]        # an accessor of the object: a parameter of the leaf
            callee = cx.tr.leaves.get(name)
            if callee is None:
                raise Untranslatable('call to unknown leaf %s' % name)
            margs = [cx.members.get(m, lean_ident(m)) for m in callee.get('members', {})]
            return '(%s)' % ' '.join([callee['lean']] + margs + args)
        if k == 'CallExpr':
            cal = inner[0]
            while cal['kind'] in ('ImplicitCastExpr', 'ParenExpr'):
                cal = cal['inner'][0]
            name = cal.get('referencedDecl', {}).get('name')
            args = [self.expr(a, cx) for a in inner[1:] if a['kind'] != 'CXXDefaultArgExpr']
            if name == 'ldiv':
                return '(C.ldiv %s %s)' % tuple(args)
            if name == 'safe_unsigned_multiply':
                (w, sg) = ctype(n)
                return '(C.umul %d %s %s)' % (w, args[0], args[1])
            callee = cx.tr.leaves.get(name)
            if callee is None:
                raise Untranslatable('call to unknown function %s' % name)
            return '(%s)' % ' '.join([callee['lean']] + args)
        raise Untranslatable('expression kind %s' % k)

    def arith(self, op, ea, eb, w, s):
        if op == '+':
            return self.mod('%s + %s' % (ea, eb), w)
        if op == '-':
            return self.mod('%s + %d - %s' % (ea, 1 << w, eb), w)
        if op == '*':
            return self.mod('%s * %s' % (ea, eb), w)
        if op == '/':
            return '(C.sdiv %d %s %s)' % (w, ea, eb) if s else '(%s / %s)' % (ea, eb)
        if op == '%':
            return '(C.srem %d %s %s)' % (w, ea, eb) if s else '(%s %% %s)' % (ea, eb)
        if op == '<<':
            return self.mod('%s <<< %s' % (ea, eb), w)
        if op == '>>':
            return '(C.asr %d %s %s)' % (w, ea, eb) if s else '(%s >>> %s)' % (ea, eb)
        if op == '&':
            return '(%s &&& %s)' % (ea, eb)
        if op == '|':
            return '(%s ||| %s)' % (ea, eb)
        if op == '^':
            return '(%s ^^^ %s)' % (ea, eb)
        raise Untranslatable('binary %s' % op)

    # ---------------------------------------------------------------- stmts
    def always_returns(self, n):
        k = n['kind']
        if k == 'ReturnStmt':
            return True
        if k == 'CompoundStmt':
            ss = n.get('inner', [])
            return bool(ss) and self.always_returns(ss[-1])
        if k == 'IfStmt':
            parts = n['inner']
            return len(parts) == 3 and self.always_returns(parts[1]) and self.always_returns(parts[2])
        if k == 'SwitchStmt':
            return False
        return False

    def assigned_vars(self, n, acc):
        k = n['kind']
        if k in ('BinaryOperator', 'CompoundAssignOperator') and (n.get('opcode', '').endswith('=') and n.get('opcode') not in ('==', '!=', '<=', '>=')):
            lhs = n['inner'][0]
            while lhs['kind'] in ('ParenExpr',):
                lhs = lhs['inner'][0]
            if lhs['kind'] == 'DeclRefExpr':
                acc.add(lean_ident(lhs['referencedDecl']['name']))
            elif lhs['kind'] == 'MemberExpr':
                acc.add('@' + lhs['name'])
        if k == 'UnaryOperator' and n.get('opcode') in ('++', '--'):
            lhs = n['inner'][0]
            if lhs['kind'] == 'DeclRefExpr':
                acc.add(lean_ident(lhs['referencedDecl']['name']))
        for ch in n.get('inner', []) or []:
            if isinstance(ch, dict) and ch:
                self.assigned_vars(ch, acc)
        return acc

    def stmts(self, ss, cx, k_after):
        """Translate statement list ss; k_after is Lean text for 'the rest'
        (None when falling off the end is impossible/void)."""
        if not ss:
            if k_after is None:
                raise Untranslatable('control reaches end of non-void function')
            return k_after
        s, rest = ss[0], ss[1:]
        k = s['kind']
        uv = cx.spec.get('upto_var')
        if uv and k == 'DeclStmt' and any(d.get('name') == uv for d in s['inner']):
            rest = []
            k_after = lean_ident(uv)
        if k == 'NullStmt':
            return self.stmts(rest, cx, k_after)
        if k in ('ParenExpr', 'CStyleCastExpr', 'CXXStaticCastExpr', 'CXXFunctionalCastExpr') and s.get('type', {}).get('qualType') == 'void':
            return self.stmts(rest, cx, k_after)      # assert() under NDEBUG
        if k == 'CallExpr':
            cal = s['inner'][0]
            while cal['kind'] in ('ImplicitCastExpr', 'ParenExpr'):
                cal = cal['inner'][0]
            if cal.get('referencedDecl', {}).get('name') == 'abort':
                return '0 /- abort() -/'
        if k == 'CompoundStmt':
            return self.stmts(list(s.get('inner', [])) + rest, cx, k_after)
        if k == 'DeclStmt':
            out = ''
            for d in s['inner']:
                if d['kind'] != 'VarDecl':
                    continue
                if 'inner' not in d:
                    # uninitialised local; treat as 0 (only legal if assigned before use)
                    out += 'let %s := 0\n' % lean_ident(d['name'])
                    continue
                init = d['inner'][-1]
                out += 'let %s := %s\n' % (lean_ident(d['name']), self.expr(init, cx))
            return out + self.stmts(rest, cx, k_after)
        if k == 'ReturnStmt':
            if not s.get('inner'):
                raise Untranslatable('void return')
            return self.expr(s['inner'][0], cx)
        if k in ('BinaryOperator', 'CompoundAssignOperator', 'UnaryOperator'):
            return self.assign(s, cx) + self.stmts(rest, cx, k_after)
        if k == 'IfStmt':
            parts = s['inner']
            c = self.expr(parts[0], cx)
            th = parts[1]
            el = parts[2] if len(parts) > 2 else None
            if self.always_returns(th) and (el is None or self.always_returns(el)):
                a = self.stmts([th], cx, None)
                b = self.stmts([el] if el else [], cx, None) if el else self.stmts(rest, cx, k_after)
                return 'if %s then\n%s\nelse\n%s' % (c, indent(a), indent(b))
            if self.always_returns(th) and el is not None:
                a = self.stmts([th], cx, None)
                b = self.stmts([el] + rest, cx, k_after)
                return 'if %s then\n%s\nelse\n%s' % (c, indent(a), indent(b))
            # branches that only assign locals
            vs = sorted(self.assigned_vars(th, set()) | (self.assigned_vars(el, set()) if el else set()))
            if any(v.startswith('@') for v in vs):
                vs = [cx.members[v[1:]] if v[1:] in cx.members else v for v in vs]
            if not vs:
                raise Untranslatable('if without effect')
            tup = '(%s)' % ', '.join(vs) if len(vs) > 1 else vs[0]
            a = self.stmts([th], cx, tup)
            b = self.stmts([el], cx, tup) if el else tup
            return 'let %s := if %s then\n%s\nelse\n%s\n' % (tup, c, indent(a), indent(b)) + self.stmts(rest, cx, k_after)
        if k == 'SwitchStmt':
            cond = self.expr(s['inner'][0], cx)
            body = s['inner'][1]
            cases = []
            default = None
            cur = None
            items = list(body.get('inner', []))
            # flatten "case a: case b: stmt" chains
            groups = []
            for it in items:
                labels = []
                node = it
                while node['kind'] in ('CaseStmt', 'DefaultStmt'):
                    if node['kind'] == 'CaseStmt':
                        labels.append(self.expr(node['inner'][0], cx))
                        node = node['inner'][-1]
                    else:
                        labels.append(None)
                        node = node['inner'][-1]
                if labels:
                    groups.append((labels, [node]))
                else:
                    if not groups:
                        raise Untranslatable('statement before first case')
                    groups[-1][1].append(it)
            text = None
            for labels, body_stmts in reversed(groups):
                bs = [b for b in body_stmts if b['kind'] != 'BreakStmt']
                if not (bs and self.always_returns(bs[-1])):
                    raise Untranslatable('switch case that does not return')
                b = self.stmts(bs, cx, None)
                if None in labels:
                    default = b
            if default is None:
                default = self.stmts(rest, cx, k_after)
            text = default
            for labels, body_stmts in reversed(groups):
                ls = [l for l in labels if l is not None]
                if not ls:
                    continue
                bs = [b for b in body_stmts if b['kind'] != 'BreakStmt']
                b = self.stmts(bs, cx, None)
                c = ' || '.join('%s == %s' % (cond, l) for l in ls)
                text = 'if %s then\n%s\nelse\n%s' % (c, indent(b), indent(text))
            return text
        if k == 'ForStmt':
            return self.forloop(s, cx) + self.stmts(rest, cx, k_after)
        raise Untranslatable('statement kind %s' % k)

    def assign(self, s, cx):
        k = s['kind']
        if k == 'UnaryOperator':
            if s['opcode'] in ('++', '--'):
                lhs = s['inner'][0]
                v = self.lhs_name(lhs, cx)
                (w, sg) = ctype(lhs)
                e = self.arith('+' if s['opcode'] == '++' else '-', v, '1', w, sg)
                return 'let %s := %s\n' % (v, e)
            raise Untranslatable('expression statement')
        op = s['opcode']
        lhs, rhs = s['inner']
        v = self.lhs_name(lhs, cx)
        if op == '=':
            return 'let %s := %s\n' % (v, self.expr(rhs, cx))
        if op.endswith('=') and op not in ('==', '!=', '<=', '>='):
            bop = op[:-1]
            # compute in ComputeResultTy then convert back to lhs type
            (wl, sl) = ctype(lhs)
            q = s.get('computeResultType', {}).get('qualType') or s.get('computeResultType', {}).get('desugaredQualType')
            (wc, sc) = INT_TYPES.get((q or '').replace('const ', ''), (wl, sl))
            el = v
            if wc > wl and sl:
                el = '(C.sext %d %d %s)' % (wl, wc, v)
            e = self.arith(bop, el, self.expr(rhs, cx), wc, sc)
            if wc > wl:
                e = self.mod(e, wl)
            return 'let %s := %s\n' % (v, e)
        raise Untranslatable('expression statement %s' % op)

    def lhs_name(self, lhs, cx):
        while lhs['kind'] == 'ParenExpr':
            lhs = lhs['inner'][0]
        if lhs['kind'] == 'DeclRefExpr':
            return lean_ident(lhs['referencedDecl']['name'])
        if lhs['kind'] == 'MemberExpr' and lhs['inner'][0]['kind'] == 'CXXThisExpr':
            if lhs['name'] in cx.members:
                return cx.members[lhs['name']]
        raise Untranslatable('assignment target')

    def forloop(self, s, cx):
        init, _condvar, cond, inc, body = (s['inner'] + [None] * 5)[:5]
        # for (T k = a; k < N; k++ / ++k)
        try:
            d = init['inner'][0]
            var = lean_ident(d['name'])
            a = int(self.expr(d['inner'][-1], cx))
            if cond['kind'] != 'BinaryOperator' or cond['opcode'] not in ('<', '<='):
                raise Untranslatable('for condition')
            nb = int(self.expr(cond['inner'][1], cx))
            if cond['opcode'] == '<=':
                nb += 1
            if inc['kind'] != 'UnaryOperator' or inc['opcode'] != '++':
                raise Untranslatable('for increment')
        except (KeyError, TypeError, ValueError, IndexError):
            raise Untranslatable('for loop shape')
        vs = sorted(self.assigned_vars(body, set()))
        vs = [cx.members[v[1:]] if v.startswith('@') and v[1:] in cx.members else v for v in vs]
        if var in vs:
            raise Untranslatable('loop variable assigned in body')
        if not vs:
            raise Untranslatable('for loop without effect')
        tup = '(%s)' % ', '.join(vs) if len(vs) > 1 else vs[0]
        b = self.stmts([body], cx, tup)
        return 'let %s := (List.range\' %d %d).foldl (fun %s %s =>\n%s) %s\n' % (
            tup, a, max(nb - a, 0), tup, var, indent(b), tup)

    # ---------------------------------------------------------------- decl
    def function(self, spec):
        fn = self.find_function(spec)
        cx = Ctx(self, spec)
        params = []
        for m, p in spec.get('members', {}).items():
            params.append(p)
        for p in fn.get('inner', []):
            if p.get('kind') == 'ParmVarDecl':
                params.append(lean_ident(p.get('name', '_')))
        body = [c for c in fn['inner'] if c.get('kind') == 'CompoundStmt'][0]
        if spec.get('params') is not None:
            params = list(spec['params'])
        if spec.get('var_init') or spec.get('if_cond') is not None:
            found = []

            def walk(o):
                if isinstance(o, dict):
                    if spec.get('var_init') and o.get('kind') == 'VarDecl' and o.get('name') == spec['var_init'] and 'inner' in o:
                        found.append(o['inner'][-1])
                    if spec.get('if_cond') is not None and o.get('kind') == 'IfStmt':
                        found.append(o['inner'][0])
                    for ch in o.get('inner', []) or []:
                        walk(ch)
            walk(body)
            idx = spec.get('if_cond') or 0
            if len(found) <= idx:
                raise Untranslatable('fragment not found in %s' % spec['cname'])
            text = self.expr(found[idx], cx)
            rt = spec.get('ret', 'Nat')
            sig = ' '.join('(%s : %s)' % (p, spec.get('ptypes', {}).get(p, 'Nat')) for p in params)
            return '/-- translated from a fragment of `%s` (%s) -/\ndef %s %s : %s :=\n%s\n' % (
                spec['cname'], spec['file'], spec['lean'], sig, rt, indent(text))
        # return type
        rq = fn['type']['qualType']
        tail = None
        if spec.get('returns_member'):
            tail = cx.members[spec['returns_member']]
        text = self.stmts(list(body.get('inner', [])), cx, tail)
        rt = spec.get('ret', 'Nat')
        sig = ' '.join('(%s : %s)' % (p, spec.get('ptypes', {}).get(p, 'Nat')) for p in params)
        src = '%s:%d' % (spec['file'], fn.get('loc', {}).get('line') or fn.get('range', {}).get('begin', {}).get('line') or 0)
        return '/-- translated from `%s` (%s) -/\ndef %s %s : %s :=\n%s\n' % (
            spec['cname'], spec['file'], spec['lean'], sig, rt, indent(text))


def indent(t, n=2):
    pad = ' ' * n
    return '\n'.join(pad + l if l else l for l in t.rstrip('\n').split('\n'))


if __name__ == '__main__':
    tr = Translator(sys.argv[1] if len(sys.argv) > 1 else '/repo')
    spec = dict(cname=sys.argv[3], file=sys.argv[2], lean=sys.argv[3], members={})
    print(tr.function(spec))
