#!/usr/bin/env python3
"""Merge the one-line-per-change logs of tools/run_mutants_snap.sh (oldest first on the command line; later logs win)
into seeded/results.txt, which tools/organize_seeded.py reads."""
import os, re, sys
V = os.path.dirname(os.path.dirname(os.path.abspath(__file__)))
res, clean = {}, {}
for p in sys.argv[1:]:
    if not os.path.exists(p):
        continue
    for l in open(p, errors='replace'):
        m = re.match(r'(C\d\d-\d+) verdict=', l)
        if m:
            res[m.group(1)] = l.rstrip('\n')
        m = re.match(r'(C\d\d)-clean (.*)', l)
        if m:
            clean.setdefault(m.group(1), []).append('FAIL' if ('VIOLATION' in m.group(2) or '-> FAIL' in m.group(2)) else 'ok')
with open(os.path.join(V, 'seeded', 'results.txt'), 'w') as f:
    for k in sorted(res, key=lambda x: (x.split('-')[0], int(x.split('-')[1]))):
        f.write(res[k] + '\n')
print('%d changes; clean-snapshot runs: %s' % (len(res), {k: '%d ok, %d FAIL' % (v.count('ok'), v.count('FAIL')) for k, v in sorted(clean.items())}))
