#!/bin/sh
# usage: tools/try_patch.sh <patch.diff> [-R] -- C01 C02 ...   : apply to /repo, run the quick checks, undo.
# Evidence files are saved and restored: committed evidence must come from runs on the unchanged tree.
patch="$1"; shift
rev=""
if [ "$1" = "-R" ]; then rev="-R"; shift; fi
[ "$1" = "--" ] && shift
cd /repo || exit 2
git diff --quiet || { echo "/repo has uncommitted changes"; exit 2; }
git apply $rev "$patch" || { echo "patch does not apply"; exit 3; }
cd /verif
rm -rf /tmp/evidence.saved && cp -r evidence /tmp/evidence.saved
for id in "$@"; do
  ./check "$id" --tier quick 2>&1 | grep -E "VIOLATION|KNOWN-FINDING| -> |violation:|break:|disagreement" | cut -c1-260 | head -8
done
git -C /repo checkout -- .
rm -rf evidence && mv /tmp/evidence.saved evidence
python3 tools/translate/translate.py > /dev/null
