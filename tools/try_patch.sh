#!/bin/sh
# usage: tools/try_patch.sh <patch.diff> [-R] -- C01 C02 ...   : apply to /repo, run the quick checks, undo.
patch="$1"; shift
rev=""
if [ "$1" = "-R" ]; then rev="-R"; shift; fi
[ "$1" = "--" ] && shift
cd /repo || exit 2
git diff --quiet || { echo "/repo has uncommitted changes"; exit 2; }
git apply $rev "$patch" || { echo "patch does not apply"; exit 3; }
cd /verif
for id in "$@"; do
  ./check "$id" --tier quick 2>&1 | grep -E "VIOLATION|KNOWN-FINDING| -> |violation:|break:|disagreement" | cut -c1-260 | head -8
done
git -C /repo checkout -- .
