"""Generic check runner: ties proof status, correspondence and property oracle
together and produces the verdict, evidence and replay files."""
import hashlib
import importlib
import json
import os
import sys
import time
import traceback

import vlib


class Ctx:
    def __init__(self, pid, tier, seed):
        self.pid = pid
        self.tier = tier
        self.seed = seed
        self.rng = vlib.Rng(seed ^ int(hashlib.sha256(pid.encode()).hexdigest()[:8], 16))
        self.t0 = time.time()
        self.evaluations = 0
        self.nontrivial = set()
        self.samples = []
        self.dist = {}
        self.traces = 0            # cases compared impl vs model
        self.oracle_cases = 0      # cases compared impl vs spec
        self.violations = []       # impl vs spec (property fails on a concrete input)
        self.disagreements = []    # impl vs model (tie broken)
        self.proof_breaks = []     # theorem / build / audit problems
        self.notes = []
        self.impl = {}
        self.assumptions = []
        self.trusted = []
        self.streams = []
        self.spec_tie = {'compared': 0}

    # -------------------------------------------------------------- counting
    def count(self, key, n=1):
        self.dist[key] = self.dist.get(key, 0) + n

    def case(self, request, nontrivial=True, sample=None):
        self.evaluations += 1
        if nontrivial:
            self.nontrivial.add(hashlib.sha1(repr(request).encode()).digest()[:8])
        if sample is not None and len(self.samples) < 6:
            self.samples.append(sample)

    def violation(self, key, what, replay):
        """The property fails on a concrete input (implementation vs spec)."""
        # keep a few per key (an open known finding must not crowd out a new violation)
        if sum(1 for v in self.violations if v['key'] == key) < 8 and len(self.violations) < 400:
            self.violations.append({'key': key, 'what': what, 'replay': replay})

    def disagree(self, stream, what, replay):
        """Model and implementation differ (correspondence broken)."""
        if len(self.disagreements) < 50:
            self.disagreements.append({'stream': stream, 'what': what, 'replay': replay})

    def proof_break(self, what, detail=''):
        self.proof_breaks.append({'what': what, 'detail': detail[-4000:]})

    # -------------------------------------------------------------- builds
    def build(self, kind):
        if kind not in self.impl:
            r = vlib.build_impl(kind)
            if 'error' in r:
                raise BuildError('implementation build (%s) failed:\n%s' % (kind, r['error']))
            self.impl[kind] = r
        return self.impl[kind]

    # -------------------------------------------------------------- streams
    def pair(self, stream, requests, compare, kind='asan', harness='harness', env=None):
        """Run the same request lines through the real code (harness) and the
        Lean driver; `compare(req, impl_line, model_line)` records results."""
        if not requests:
            return
        impl = self.build(kind)
        ib, irc, ierr = vlib.run_lines(impl[harness], requests, env=env)
        mb, mrc, merr = vlib.run_lines(vlib.driver_path(), requests)
        self.streams.append({'stream': stream, 'requests': len(requests)})
        if mrc != 0 or len(mb) != len(requests):
            self.proof_break('model driver failed on stream %s (rc=%s, %d/%d responses)' % (stream, mrc, len(mb), len(requests)), merr)
            return
        for i, rq in enumerate(requests):
            if i >= len(ib):
                # the real code died here (sanitizer report, abort, signal)
                self.violation('crash:' + stream, 'implementation stopped (rc=%s) while serving a request: %s' % (irc, last_lines(ierr)),
                               {'stream': stream, 'request': rq, 'impl_rc': irc, 'impl_stderr': ierr[-3000:], 'model': mb[i]})
                break
            compare(rq, ib[i], mb[i])


def jsonable(o, depth=0):
    """anything -> something json.dump accepts (replay files must never make a check fall over)"""
    if isinstance(o, (str, int, float, bool)) or o is None:
        return o
    if isinstance(o, (bytes, bytearray)):
        return o.hex() if len(o) <= 400000 else o[:400000].hex() + '...'
    if depth > 6:
        return repr(o)[:200]
    if isinstance(o, dict):
        return {(k if isinstance(k, str) else repr(k)): jsonable(v, depth + 1) for k, v in list(o.items())[:2000]}
    if isinstance(o, (list, tuple, set, frozenset)):
        return [jsonable(v, depth + 1) for v in list(o)[:2000]]
    return repr(o)[:500]


class BuildError(Exception):
    pass


def last_lines(s, n=3):
    ls = [l for l in (s or '').strip().split('\n') if l.strip()]
    for l in ls:
        if 'ERROR' in l or 'runtime error' in l:
            return l.strip()[:300]
    return ' / '.join(ls[-n:])[:300]


def all_theorems(mod):
    lms = getattr(mod, 'LEAN_MODULES', None) or ([mod.LEAN_MODULE] if hasattr(mod, 'LEAN_MODULE') else [])
    return [t for m_ in lms for t in vlib.theorems_in(m_)]


def known_match(pid, v, known):
    for k in known:
        if k.get('status', 'open') != 'open':
            continue
        if k['property'] == pid and k['key'] == v['key']:
            return k
    return None


def main(argv):
    import argparse
    ap = argparse.ArgumentParser()
    ap.add_argument('pid')
    ap.add_argument('--tier', default=os.environ.get('VERIF_TIER', 'quick'))
    ap.add_argument('--seed', type=int, default=None)
    ap.add_argument('--replay', default=None)
    a = ap.parse_args(argv)
    pid = a.pid.upper()
    tier = a.tier if a.tier in ('quick', 'thorough') else 'quick'
    seed = a.seed if a.seed is not None else int(os.environ.get('VERIF_SEED', '20260929') or 20260929)
    sys.path.insert(0, os.path.join(vlib.VERIF, 'tools'))
    mod = importlib.import_module('props.' + pid.lower())
    ctx = Ctx(pid, tier, seed)
    known = vlib.load_known()
    obligations = 0
    discharged = 0
    axioms = {}
    checker_cmds = []
    trep = {}
    try:
        # 1. regenerate the model's generated parts from the current source
        rc, out, trep = vlib.translate()
        if rc != 0:
            ctx.proof_break('translator failed', out)
        for sk in trep.get('skipped', []):
            if sk['leaf'] in getattr(mod, 'LEAVES', []) or getattr(mod, 'LEAVES', None) == '*':
                ctx.proof_break('translator-skip: leaf %s could not be translated (%s); model falls back to the pinned rendering' % (sk['leaf'], sk['reason']))
        for tb in trep.get('table_problems', []):
            if tb.get('property') in (pid, '*'):
                ctx.proof_break('generated table problem: %s' % tb.get('what'))
        # 2. proofs against the regenerated model + driver
        lms = getattr(mod, 'LEAN_MODULES', None) or [mod.LEAN_MODULE]
        lm = ' '.join(lms)
        rc, out, lt = vlib.lake_build(lms + ['beebdrv'])
        checker_cmds.append('cd lean && lake build %s beebdrv' % lm)
        ths = [t for m_ in lms for t in vlib.theorems_in(m_)]
        obligations = len(ths)
        if rc != 0:
            bad = [l for l in out.split('\n') if 'error' in l][:8]
            ctx.proof_break('lake build %s failed: %s' % (lm, ' | '.join(bad)[:1500]), out)
            # the driver may still build even if a proof is broken
            rc2, out2, _ = vlib.lake_build(['beebdrv'])
            if rc2 != 0:
                ctx.proof_break('model driver does not build', out2)
        else:
            ok, axioms, raw = True, {}, ''
            for m_ in lms:
                ok1, ax1, raw1 = vlib.audit_axioms(m_)
                ok = ok and ok1
                axioms.update(ax1)
                raw += raw1
                checker_cmds.append('cd lean && lake env lean Audit/%s.lean   # #print axioms of every theorem' % m_.split('.')[-1])
            discharged = sum(1 for t in ths if t in axioms and set(axioms[t]) <= vlib.ALLOWED_AXIOMS)
            if not ok:
                ctx.proof_break('axiom audit failed for %s' % lm, raw)
            hits = [h for m_ in lms for h in vlib.forbidden_scan(m_)]
            checker_cmds.append("grep sorry|admit|axiom|native_decide|bv_decide|implemented_by|unsafe|maxHeartbeats 0 over the import cone (comments stripped)")
            if hits:
                ctx.proof_break('forbidden construct in proof cone: %s' % ', '.join(hits[:5]))
                discharged = 0
            if tier == 'thorough':
                for m_ in lms:
                    ok, out = vlib.leanchecker(m_)
                    checker_cmds.append('cd lean && lake env leanchecker %s' % m_)
                    if not ok:
                        ctx.proof_break('leanchecker rejected %s' % m_, out)
        # 3. correspondence and property oracle on the real code
        if a.replay:
            mod.replay(ctx, json.load(open(a.replay)))
        else:
            mod.run(ctx)
        # 4. oracle-spec tie: what the Python oracles predicted vs the Lean specs the theorems are stated against
        n_spec, spec_kinds, spec_diffs, spec_err = vlib.spec_flush()
        ctx.spec_tie = {'compared': n_spec, 'kinds': spec_kinds, 'differences': len(spec_diffs), 'queued': vlib.SPEC_STATS['queued']}
        if spec_err:
            ctx.proof_break('oracle-spec tie could not be evaluated', spec_err)
        for (rq, py, ln) in spec_diffs[:5]:
            ctx.proof_break('oracle-spec tie broken: `spec %s`: the Python oracle says %s, the Lean spec says %s' % (rq[:300], py[:300], ln[:300]))
    except BuildError as e:
        ctx.proof_break('cannot build the implementation from /repo', str(e))
    except Exception:
        ctx.proof_break('check machinery error', traceback.format_exc())

    # ---------------------------------------------------------------- verdict
    os.makedirs(os.path.join(vlib.VERIF, 'replays'), exist_ok=True)
    lines = []
    exit_code = 0
    n = 0
    seen_known = set()
    new_violations = []
    for v in ctx.violations:
        k = known_match(pid, v, known)
        if k:
            if k['key'] not in seen_known:
                seen_known.add(k['key'])
                lines.append('KNOWN-FINDING: property=%s %s' % (pid, k['what']))
        else:
            new_violations.append(v)
    reported_keys = set()
    for v in new_violations:
        if v['key'] in reported_keys:
            continue
        reported_keys.add(v['key'])
        path = os.path.join(vlib.VERIF, 'replays', '%s-%d-%d.json' % (pid, seed, n))
        n += 1
        with open(path, 'w') as f:
            json.dump(jsonable({'property': pid, 'kind': 'property-fails-on-input', 'key': v['key'], 'what': v['what'], 'replay': v['replay'],
                                'seed': seed, 'tier': tier}), f, indent=1, default=repr)
        lines.append('VIOLATION property=%s replay=%s' % (pid, path))
        print('  violation: %s' % v['what'][:500], file=sys.stderr)
        exit_code = 1
    if not new_violations and (ctx.disagreements or ctx.proof_breaks):
        # the proof or the tie to the code is broken and no failing input was found
        # (known findings do not excuse a broken proof/tie)
        path = os.path.join(vlib.VERIF, 'replays', '%s-%d-broken.json' % (pid, seed))
        with open(path, 'w') as f:
            json.dump(jsonable({'property': pid, 'kind': 'proof-or-correspondence-broken',
                                'proof_breaks': ctx.proof_breaks, 'correspondence_disagreements': ctx.disagreements[:10],
                                'theorems': all_theorems(mod),
                                'seed': seed, 'tier': tier}), f, indent=1, default=repr)
        for b in ctx.proof_breaks[:5]:
            print('  proof/tie break: %s' % b['what'][:800], file=sys.stderr)
        for d in ctx.disagreements[:5]:
            print('  model/impl disagreement [%s]: %s' % (d['stream'], d['what'][:500]), file=sys.stderr)
        lines.append('VIOLATION property=%s replay=%s no-failing-input-found' % (pid, path))
        exit_code = 1
    elif new_violations and (ctx.disagreements or ctx.proof_breaks):
        for b in ctx.proof_breaks[:5]:
            print('  (also) proof/tie break: %s' % b['what'][:500], file=sys.stderr)

    # ---------------------------------------------------------------- evidence
    wall = time.time() - ctx.t0
    all_ax = sorted(set(x for v in axioms.values() for x in v))
    ev = {
        'property_id': pid, 'tier': tier, 'seed': seed, 'level': 'proof',
        'coverage': {
            'obligations': max(obligations, 1),
            'discharged': discharged if not ctx.proof_breaks else min(discharged, max(obligations - 1, 0)),
            'checker_cmd': ' ; '.join(checker_cmds) or 'lake build',
            'trusted_base': ['Lean 4.33.0 kernel', 'axioms used by the property theorems: %s' % (', '.join(all_ax) or 'none')] +
                            ['translator tools/translate (clang-14 JSON AST -> Lean leaves, tables)',
                             'correspondence harness + generators (tools/, harness/)'] + ctx.trusted,
            'theorems': {t: axioms.get(t) for t in all_theorems(mod)},
            'translator': {'translated': trep.get('translated', []), 'skipped': trep.get('skipped', []), 'tables': trep.get('tables', {})},
            'evaluations': max(ctx.evaluations, 1),
            'distinct_nontrivial': len(ctx.nontrivial),
            'rule': getattr(mod, 'RULE', ''),
            'samples': ctx.samples[:6] or ['(none)'],
            'traces_validated_against_impl': ctx.traces,
            'oracle_cases': ctx.oracle_cases,
            'disagreements_checked': len(ctx.disagreements),
            'streams': ctx.streams,
            'oracle_spec_tie': ctx.spec_tie,
            'distribution': ctx.dist,
            'impl_builds': {k: v.get('key') for k, v in ctx.impl.items()},
            'proof_breaks': [b['what'] for b in ctx.proof_breaks],
            'known_findings_seen': sorted(seen_known),
            'notes': ctx.notes,
        },
        'assumptions': getattr(mod, 'ASSUMPTIONS', []) + ctx.assumptions,
        'wall_s': round(wall, 2),
        'violations': len(new_violations) + (1 if exit_code and not new_violations else 0),
    }
    os.makedirs(os.path.join(vlib.VERIF, 'evidence'), exist_ok=True)
    with open(os.path.join(vlib.VERIF, 'evidence', pid + '.json'), 'w') as f:
        json.dump(jsonable(ev), f, indent=1, default=repr)
    for l in lines:
        print(l)
    print('%s %s: %d theorems (%d discharged), %d cases (%d distinct non-trivial), %d model/impl traces, %d oracle cases, %.1fs -> %s' % (
        pid, tier, obligations, discharged, ctx.evaluations, len(ctx.nontrivial), ctx.traces, ctx.oracle_cases, wall,
        'FAIL' if exit_code else 'ok'), file=sys.stderr)
    return exit_code


if __name__ == '__main__':
    try:
        sys.exit(main(sys.argv[1:]))
    except SystemExit:
        raise
    except BaseException:
        # the machinery itself fell over after the checks ran: never end silently
        traceback.print_exc()
        pid = (sys.argv[1] if len(sys.argv) > 1 else 'C00').upper()
        os.makedirs(os.path.join(vlib.VERIF, 'replays'), exist_ok=True)
        path = os.path.join(vlib.VERIF, 'replays', '%s-machinery-error.json' % pid)
        with open(path, 'w') as f:
            json.dump({'property': pid, 'kind': 'check-machinery-error', 'traceback': traceback.format_exc()[-4000:]}, f, indent=1)
        print('VIOLATION property=%s replay=%s no-failing-input-found' % (pid, path))
        sys.exit(1)
